package main

import (
	"fmt"
	"strings"
)

// Term is an SMT-LIB term with a sort.
// Sort: 0 = Bool, n > 0 = (_ BitVec n), -32 / -64 = Float32 / Float64.
type Term struct {
	S    string
	Sort int
}

func sortText(s int) string {
	switch {
	case s == 0:
		return "Bool"
	case s == -32:
		return "(_ FloatingPoint 8 24)"
	case s == -64:
		return "(_ FloatingPoint 11 53)"
	}
	return fmt.Sprintf("(_ BitVec %d)", s)
}

func bvConst(v uint64, bits int) *Term {
	if bits < 64 {
		v &= (1 << uint(bits)) - 1
	}
	if bits%4 == 0 {
		return &Term{fmt.Sprintf("#x%0*x", bits/4, v), bits}
	}
	return &Term{fmt.Sprintf("(_ bv%d %d)", v, bits), bits}
}

var termTrue = &Term{"true", 0}
var termFalse = &Term{"false", 0}

func boolConst(b bool) *Term {
	if b {
		return termTrue
	}
	return termFalse
}

// nameThreshold: terms longer than this are bound to a name with define-fun so
// that shared sub-terms do not blow the text up exponentially.
const nameThreshold = 160

// app builds an application; long results are named in the solver scope.
func (m *Machine) app(sort int, op string, args ...*Term) *Term {
	var sb strings.Builder
	sb.WriteByte('(')
	sb.WriteString(op)
	for _, a := range args {
		sb.WriteByte(' ')
		sb.WriteString(a.S)
	}
	sb.WriteByte(')')
	s := sb.String()
	if len(s) > nameThreshold {
		m.nsym++
		name := fmt.Sprintf("t!%d", m.nsym)
		m.sol.Send(fmt.Sprintf("(define-fun %s () %s %s)", name, sortText(sort), s))
		m.defs[name] = s
		return &Term{name, sort}
	}
	return &Term{s, sort}
}

func (m *Machine) tNot(a *Term) *Term {
	if a.S == "true" {
		return termFalse
	}
	if a.S == "false" {
		return termTrue
	}
	if strings.HasPrefix(a.S, "(not ") {
		return &Term{a.S[5 : len(a.S)-1], 0}
	}
	return m.app(0, "not", a)
}

func (m *Machine) tAnd(a, b *Term) *Term {
	if a.S == "true" {
		return b
	}
	if b.S == "true" {
		return a
	}
	if a.S == "false" || b.S == "false" {
		return termFalse
	}
	// flatten chains of conjunctions into wide n-ary nodes: a chain of
	// thousands of binary ands is pathologically slow to parse in z3
	if strings.HasPrefix(a.S, "(and ") && len(a.S) < 1500 && len(b.S) < 200 {
		return &Term{a.S[:len(a.S)-1] + " " + b.S + ")", 0}
	}
	if len(a.S) < 200 && len(b.S) < 200 {
		return &Term{"(and " + a.S + " " + b.S + ")", 0}
	}
	return m.app(0, "and", a, b)
}

func (m *Machine) tOr(a, b *Term) *Term {
	if a.S == "false" {
		return b
	}
	if b.S == "false" {
		return a
	}
	if a.S == "true" || b.S == "true" {
		return termTrue
	}
	return m.app(0, "or", a, b)
}

func (m *Machine) tIte(c, a, b *Term) *Term {
	if c.S == "true" {
		return a
	}
	if c.S == "false" {
		return b
	}
	if a.S == b.S {
		return a
	}
	return m.app(a.Sort, "ite", c, a, b)
}

func (m *Machine) tEq(a, b *Term) *Term {
	if a.S == b.S {
		return termTrue
	}
	if a.S[0] == '#' && b.S[0] == '#' {
		return termFalse // distinct literals of the same width
	}
	return m.app(0, "=", a, b)
}
