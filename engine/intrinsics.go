package main

import (
	"fmt"
	"strings"
)

// The harness language: body-less functions named v* declared in the
// package under test; the executor intercepts them by name.

func (m *Machine) drawNames() []string {
	var names []string
	for _, d := range m.draws {
		if d.Name != "" {
			names = append(names, d.Name)
		}
	}
	return names
}

func (m *Machine) fillDraws(model map[string]string) []Draw {
	out := make([]Draw, len(m.draws))
	copy(out, m.draws)
	for i := range out {
		if out[i].Name != "" {
			if v, ok := model[out[i].Name]; ok {
				out[i].Val = modelUint(v)
			}
		}
	}
	return out
}

// violate records a violation on the current path; model may be nil, in
// which case one is asked for the current path condition.
func (m *Machine) violateWith(label, kind, msg string, model map[string]string) {
	if model == nil {
		if r, mod := m.sol.CheckModel(nil, m.drawNames()); r == "sat" {
			model = mod
		}
	}
	v := Violation{Job: m.curJob, Label: label, Kind: kind, Msg: msg, PathIdx: m.pathIdx,
		Notes: append([]string{}, m.notes...), Draws: m.fillDraws(model), Prefix: append([]int{}, m.taken...)}
	m.pathViol = append(m.pathViol, v)
}

func (m *Machine) violate(label, kind, msg string) { m.violateWith(label, kind, msg, nil) }

func (m *Machine) label(l string) *labelStat {
	s, ok := m.Labels[l]
	if !ok {
		s = &labelStat{}
		m.Labels[l] = s
	}
	return s
}

func strArg(v Val) string {
	s := v.(Str)
	if s.Sym {
		return "<symbolic>"
	}
	return s.C
}

func (m *Machine) setupIntrinsics() {
	m.intr = map[string]Intrinsic{}
	reg := func(name string, f Intrinsic) { m.intr["*."+name] = f }
	nondet := func(bits int, signed bool, kind string) Intrinsic {
		return func(m *Machine, a []Val) Val {
			if m.concrete != nil {
				v := m.concreteDraw(bits, kind)
				return cInt(v, bits, signed)
			}
			return Int{Bits: bits, Signed: signed, T: m.freshDraw(bits, kind)}
		}
	}
	reg("vNondetBool", func(m *Machine, a []Val) Val {
		if m.concrete != nil {
			return Bool{C: m.concreteDraw(1, "bool") == 1}
		}
		return Bool{T: m.freshDraw(0, "bool")}
	})
	reg("vObserve", func(m *Machine, a []Val) Val {
		if m.concrete == nil {
			return nil
		}
		var sb strings.Builder
		switch x := a[0].(type) {
		case Slice:
			for _, e := range x.V {
				i := e.(Int)
				if i.T != nil || i.BID != 0 {
					sb.WriteString("??")
				} else {
					fmt.Fprintf(&sb, "%02x", i.C&0xff)
				}
			}
		}
		m.obs = append(m.obs, sb.String())
		return nil
	})
	reg("vNondetU8", nondet(8, false, "u8"))
	reg("vNondetU32", nondet(32, false, "u32"))
	reg("vNondetU64", nondet(64, false, "u64"))
	reg("vNondetI32", nondet(32, true, "i32"))
	reg("vNondetI64", nondet(64, true, "i64"))
	reg("vNondetF32", func(m *Machine, a []Val) Val {
		if m.concrete != nil {
			return Float{Bits: 32, C: m.concreteDraw(32, "f32")}
		}
		return Float{Bits: 32, T: m.freshDraw(32, "f32")}
	})
	reg("vNondetF64", func(m *Machine, a []Val) Val {
		if m.concrete != nil {
			return Float{Bits: 64, C: m.concreteDraw(64, "f64")}
		}
		return Float{Bits: 64, T: m.freshDraw(64, "f64")}
	})
	reg("vFaultIndex", func(m *Machine, a []Val) Val {
		return Int{Bits: 64, Signed: true, T: m.freshDraw(64, "fault")}
	})
	reg("vFaultFired", func(m *Machine, a []Val) Val { return nil })
	reg("vChoose", func(m *Machine, a []Val) Val {
		n := a[0].(Int).AsInt()
		if n <= 1 {
			return goInt(0) // the native twin does not consume a draw either
		}
		k := m.choose(n)
		m.draws = append(m.draws, Draw{Kind: "choose", Val: uint64(k), Bits: n})
		return goInt(k)
	})
	reg("vAssume", func(m *Machine, a []Val) Val {
		b := a[0].(Bool)
		if b.T == nil {
			if !b.C {
				panic(pathAbort{})
			}
			return nil
		}
		if r := m.sol.Check(b.T); r == "unsat" {
			panic(pathAbort{})
		}
		m.assume(b.T)
		return nil
	})
	reg("vAnd", func(m *Machine, a []Val) Val { return mkBool(m.tAnd(a[0].(Bool).Term(), a[1].(Bool).Term())) })
	reg("vOr", func(m *Machine, a []Val) Val { return mkBool(m.tOr(a[0].(Bool).Term(), a[1].(Bool).Term())) })
	reg("vNot", func(m *Machine, a []Val) Val { return mkBool(m.tNot(a[0].(Bool).Term())) })
	reg("vImplies", func(m *Machine, a []Val) Val {
		return mkBool(m.tOr(m.tNot(a[0].(Bool).Term()), a[1].(Bool).Term()))
	})
	reg("vEqBytes", func(m *Machine, a []Val) Val {
		x, y := a[0].(Slice), a[1].(Slice)
		if x.Blob != nil || y.Blob != nil {
			return Bool{C: x.Blob != nil && y.Blob != nil && x.Blob.ID == y.Blob.ID}
		}
		if len(x.V) != len(y.V) {
			return Bool{C: false}
		}
		t := termTrue
		for i := range x.V {
			xi, yi := x.V[i].(Int), y.V[i].(Int)
			if xi.BID != yi.BID || xi.BOff != yi.BOff {
				return Bool{C: false}
			}
			t = m.tAnd(t, m.tEq(xi.Term(), yi.Term()))
		}
		return mkBool(t)
	})
	reg("vAssert", func(m *Machine, a []Val) Val {
		b := a[0].(Bool)
		lbl := strArg(a[1])
		m.Obligs++
		ls := m.label(lbl)
		ls.Evaluated++
		if b.T == nil {
			if !b.C {
				m.violate(lbl, "concrete", "")
				panic(pathAbort{})
			}
			m.Discharged++
			ls.Discharged++
			return nil
		}
		ls.Symbolic++
		m.symOblig++
		r, model := m.sol.CheckModel(m.tNot(b.T), m.drawNames())
		switch r {
		case "unsat":
			m.Discharged++
			ls.Discharged++
		case "sat":
			m.violateWith(lbl, "assert", "", model)
			if m.sol.Check(b.T) == "unsat" {
				panic(pathAbort{})
			}
			m.assume(b.T)
		default:
			m.violateWith(lbl, "unknown", "solver answered "+r, map[string]string{})
			m.assume(b.T)
		}
		return nil
	})
	reg("vSingleReplay", func(m *Machine, a []Val) Val { return Bool{C: false} })
	reg("vReach", func(m *Machine, a []Val) Val {
		m.reached[strArg(a[0])] = true
		return nil
	})
	reg("vNote", func(m *Machine, a []Val) Val {
		m.notes = append(m.notes, strArg(a[0]))
		return nil
	})
	reg("vNoteInt", func(m *Machine, a []Val) Val {
		i := a[1].(Int)
		if i.T != nil {
			m.notes = append(m.notes, strArg(a[0])+"=<sym>")
		} else {
			m.notes = append(m.notes, fmt.Sprintf("%s=%d", strArg(a[0]), i.AsInt()))
		}
		return nil
	})
	reg("vPanicked", func(m *Machine, a []Val) Val {
		f := a[0].(Func)
		depth := len(m.frames)
		panicked := false
		func() {
			defer func() {
				if r := recover(); r != nil {
					if gp, ok := r.(GoPanic); ok {
						panicked = true
						m.frames = m.frames[:depth]
						m.notes = append(m.notes, "panic: "+gp.Msg)
					} else {
						panic(r)
					}
				}
			}()
			m.callFn(f.Fn, nil, f.Env)
		}()
		return Bool{C: panicked}
	})
	reg("vValid", func(m *Machine, a []Val) Val {
		b := a[0].(Bool)
		if b.T == nil {
			return b
		}
		return Bool{C: m.sol.Check(m.tNot(b.T)) == "unsat"}
	})
	reg("vIsConcrete", func(m *Machine, a []Val) Val {
		switch x := a[0].(type) {
		case Int:
			return Bool{C: x.T == nil}
		case Bool:
			return Bool{C: x.T == nil}
		}
		return Bool{C: true}
	})
	// ---- opaque segments
	reg("vBlobID", func(m *Machine, a []Val) Val {
		sl := a[0].(Slice)
		if sl.Blob != nil {
			return goInt(sl.Blob.ID)
		}
		if id, ok := m.wholeBlob(sl.V); ok {
			return goInt(id)
		}
		return goInt(-1)
	})
	le := func(n int) Intrinsic {
		return func(m *Machine, a []Val) Val {
			sl := a[0].(Slice)
			if len(sl.V) < n {
				panic(GoPanic{"index out of range in vLE"})
			}
			return m.leInt(sl.V[:n], 8*n, false)
		}
	}
	reg("vLE32", le(4))
	reg("vLE64", le(8))
	reg("vIsOpaque", func(m *Machine, a []Val) Val { return Bool{C: a[0].(Slice).Blob != nil} })
	reg("vBlobKind", func(m *Machine, a []Val) Val {
		id := a[0].(Int).AsInt()
		if id < 0 || id >= len(m.blobs) {
			return Str{C: ""}
		}
		return Str{C: m.blobs[id].kind}
	})
	reg("vBlobSrc", func(m *Machine, a []Val) Val {
		id := a[0].(Int).AsInt()
		if id < 0 || id >= len(m.blobs) || m.blobs[id].src == nil {
			return Slice{Nil: true}
		}
		return Slice{V: append([]Val{}, m.blobs[id].src...)}
	})
	reg("vCaptured", func(m *Machine, a []Val) Val {
		id := a[0].(Int).AsInt()
		if id < 0 || id >= len(m.blobs) || m.blobs[id].kind != "thrift" {
			return Iface{}
		}
		c := m.captured[m.blobs[id].cap]
		return Iface{T: c.T, V: Ptr{&m.captured[m.blobs[id].cap].V}}
	})
	reg("vDeepEqual", func(m *Machine, a []Val) Val {
		t, ok := m.deepEq(a[0], a[1], 0)
		if !ok {
			return Bool{C: false}
		}
		return mkBool(t)
	})
	reg("vThriftBlob", func(m *Machine, a []Val) Val {
		msg := a[0].(Iface)
		ci := len(m.captured)
		m.captured = append(m.captured, captured{T: msg.T, V: deepCopy(*msg.V.(Ptr).P)})
		n := 2 + ci%3
		if m.opt.FixedHdr {
			n = 3
		}
		if m.opt.HdrLen > 0 {
			n = m.opt.HdrLen
		}
		id := m.newBlob("thrift", ci, nil, n)
		return Slice{V: blobBytes(id, n)}
	})
	reg("vCompressBlob", func(m *Machine, a []Val) Val {
		codec := a[0].(Int).AsInt()
		src := a[1].(Slice)
		snap := append([]Val{}, src.V...)
		switch codec {
		case 1:
			n := len(snap) + 2
			return Slice{V: blobBytes(m.newBlob("snappy", -1, snap, n), n)}
		case 2:
			n := len(snap) + 18
			return Slice{V: blobBytes(m.newBlob("gzip", -1, snap, n), n)}
		}
		return src
	})
	reg("vNumBlobs", func(m *Machine, a []Val) Val { return goInt(len(m.blobs)) })
	reg("vMisaligned", func(m *Machine, a []Val) Val { return goInt(len(m.misaligned)) })
	reg("vMisalignedClear", func(m *Machine, a []Val) Val { m.misaligned = nil; return nil })
	reg("vPoolGets", func(m *Machine, a []Val) Val { return goInt(m.poolGets) })
	// vDependsOnStale: does the byte's term mention a stale pool byte?
	reg("vMentionsStale", func(m *Machine, a []Val) Val {
		switch x := a[0].(type) {
		case Int:
			return Bool{C: x.T != nil && m.mentionsStale(x.T)}
		}
		return Bool{C: false}
	})
	// vIndependentOfStale(b): b's value is the same for every content of the
	// stale pool buffers (2-safety query: two copies of the stale variables).
	reg("vStaleIndependent", func(m *Machine, a []Val) Val {
		x := a[0].(Int)
		if x.T == nil || !m.mentionsStale(x.T) {
			return Bool{C: true}
		}
		return Bool{C: m.staleIndependent(x.T)}
	})
}

func (m *Machine) mentionsStale(t *Term) bool {
	return strings.Contains(m.expand(t.S, 0), "stale!")
}

// expand inlines named sub-terms (t!N) so that a syntactic scan sees the
// variables below them.
func (m *Machine) expand(s string, depth int) string {
	if depth > 50 || !strings.Contains(s, "t!") {
		return s
	}
	var sb strings.Builder
	i := 0
	for i < len(s) {
		if s[i] == 't' && i+1 < len(s) && s[i+1] == '!' && (i == 0 || s[i-1] == ' ' || s[i-1] == '(') {
			j := i + 2
			for j < len(s) && s[j] >= '0' && s[j] <= '9' {
				j++
			}
			name := s[i:j]
			if def, ok := m.defs[name]; ok {
				sb.WriteString(m.expand(def, depth+1))
			} else {
				sb.WriteString(name)
			}
			i = j
			continue
		}
		sb.WriteByte(s[i])
		i++
	}
	return sb.String()
}

// staleIndependent asks the solver whether two assignments to the stale
// variables (everything else equal, path condition holding for both) can
// give different values of t.
func (m *Machine) staleIndependent(t *Term) bool {
	full := m.expand(t.S, 0)
	// rename stale!N -> stale2!N in a copy of the term and of the path condition
	ren := func(s string) string { return strings.ReplaceAll(s, "stale!", "stale2!") }
	m.sol.Send("(push)")
	seen := map[string]bool{}
	for _, f := range strings.FieldsFunc(full, func(r rune) bool { return r == ' ' || r == '(' || r == ')' }) {
		if strings.HasPrefix(f, "stale!") && !seen[f] {
			seen[f] = true
			m.sol.Send(fmt.Sprintf("(declare-const %s (_ BitVec 8))", ren(f)))
		}
	}
	for _, c := range m.pcLog {
		e := m.expand(c, 0)
		if strings.Contains(e, "stale!") {
			m.sol.Send("(assert " + ren(e) + ")")
		}
	}
	r := m.sol.Check(&Term{"(not (= " + full + " " + ren(full) + "))", 0})
	m.sol.Send("(pop)")
	return r == "unsat"
}

// deepEq: structural equality of two values (through pointers, slices,
// interfaces) as a term; ok=false when the shapes differ.
func (m *Machine) deepEq(x, y Val, depth int) (*Term, bool) {
	if depth > 40 {
		panic(Unsupported{"deepEq depth"})
	}
	switch a := x.(type) {
	case Int:
		b, ok := y.(Int)
		if !ok || a.Bits != b.Bits {
			return nil, false
		}
		if a.BID != b.BID && (a.BID != 0 || b.BID != 0) {
			// bytes of different opaque blobs: compared by the caller through their sources
		}
		return m.tEq(a.Term(), b.Term()), true
	case Bool:
		b, ok := y.(Bool)
		if !ok {
			return nil, false
		}
		return m.tEq(a.Term(), b.Term()), true
	case Float:
		b, ok := y.(Float)
		if !ok || a.Bits != b.Bits {
			return nil, false
		}
		return m.tEq(a.BV(), b.BV()), true
	case Str:
		b, ok := y.(Str)
		if !ok {
			return nil, false
		}
		return m.strEq(strBytes(a), strBytes(b)), true
	case Ptr:
		b, ok := y.(Ptr)
		if !ok {
			return nil, false
		}
		if a.P == nil || b.P == nil {
			return boolConst(a.P == nil && b.P == nil), a.P == nil && b.P == nil
		}
		return m.deepEq(*a.P, *b.P, depth+1)
	case Struct:
		b, ok := y.(Struct)
		if !ok || len(a) != len(b) {
			return nil, false
		}
		t := termTrue
		for i := range a {
			e, ok := m.deepEq(a[i], b[i], depth+1)
			if !ok {
				return nil, false
			}
			t = m.tAnd(t, e)
		}
		return t, true
	case Array:
		b, ok := y.(Array)
		if !ok || len(a) != len(b) {
			return nil, false
		}
		t := termTrue
		for i := range a {
			e, ok := m.deepEq(a[i], b[i], depth+1)
			if !ok {
				return nil, false
			}
			t = m.tAnd(t, e)
		}
		return t, true
	case Slice:
		b, ok := y.(Slice)
		if !ok || a.Blob != nil || b.Blob != nil || len(a.V) != len(b.V) {
			return nil, false
		}
		t := termTrue
		for i := range a.V {
			e, ok := m.deepEq(a.V[i], b.V[i], depth+1)
			if !ok {
				return nil, false
			}
			t = m.tAnd(t, e)
		}
		return t, true
	case Iface:
		b, ok := y.(Iface)
		if !ok {
			return nil, false
		}
		if a.T == nil || b.T == nil {
			return boolConst(a.T == nil && b.T == nil), a.T == nil && b.T == nil
		}
		return m.deepEq(a.V, b.V, depth+1)
	case nil:
		return boolConst(y == nil), y == nil
	}
	panic(Unsupported{fmt.Sprintf("deepEq on %T", x)})
}

// concreteDraw: pseudo-random concrete value for the differential mode,
// biased towards small and boundary values; recorded in the draw vector.
func (m *Machine) concreteDraw(bits int, kind string) uint64 {
	r := m.concrete
	var v uint64
	if kind == "u8" && m.opt.ConcreteU8Max > 0 {
		v = uint64(r.Intn(m.opt.ConcreteU8Max + 1))
		// runs of equal values matter for the RLE encoder: repeat the previous draw often
		if n := len(m.draws); n > 0 && r.Intn(3) > 0 {
			v = m.draws[n-1].Val
		}
		m.draws = append(m.draws, Draw{Kind: kind, Bits: bits, Val: v})
		return v
	}
	switch p := r.Intn(10); {
	case p < 5:
		v = uint64(r.Intn(4))
	case p < 7:
		v = uint64(r.Intn(16))
	case p < 8:
		v = ^uint64(0) - uint64(r.Intn(3))
	default:
		v = r.Uint64()
	}
	v &= mask(bits)
	m.draws = append(m.draws, Draw{Kind: kind, Bits: bits, Val: v})
	return v
}
