package main

import (
	"math/rand"
	"fmt"
	"go/constant"
	"go/token"
	"go/types"
	"math"
	"strings"

	"golang.org/x/tools/go/ssa"
)

type deferred struct {
	fn   Val
	args []Val
	call *ssa.CallCommon
}

type frame struct {
	fn     *ssa.Function
	env    map[ssa.Value]Val
	defers []deferred
}

type Intrinsic func(m *Machine, args []Val) Val

// Draw is one nondeterministic draw of the harness, in path order; the list
// of draws with the solver's values is the replay vector.
type Draw struct {
	Kind string `json:"kind"`
	Name string `json:"name,omitempty"`
	Bits int    `json:"bits,omitempty"`
	Val  uint64 `json:"val"`
}

// Violation is one failed obligation (or panic) on one path.
type Violation struct {
	Job     string   `json:"job"`
	Label   string   `json:"label"`
	Kind    string   `json:"kind"` // assert | panic | unknown | concrete
	Msg     string   `json:"msg,omitempty"`
	Notes   []string `json:"notes,omitempty"`
	Draws   []Draw   `json:"draws,omitempty"`
	Prefix  []int    `json:"prefix,omitempty"`
	PathIdx int      `json:"path"`
}

type labelStat struct {
	Evaluated  int `json:"evaluated"`
	Discharged int `json:"discharged"`
	Symbolic   int `json:"symbolic"`
}

type Machine struct {
	prog *ssa.Program
	sol  *Solver
	intr map[string]Intrinsic
	opt  *Options

	// path state
	globals  map[*ssa.Global]*Val
	prefix   []int
	taken    []int
	newAlts  [][]int
	nsym     int
	draws    []Draw
	notes    []string
	steps    int64
	captured []captured
	blobs    []*blobInfo
	sideTab  map[*Val]interface{}
	released map[*Val]string
	pathViol []Violation
	reached  map[string]bool
	curJob   string
	pathIdx  int
	symOblig int
	frames   []*frame
	defs     map[string]string
	pcLog    []string
	misaligned []string
	poolGets int
	poolCap  int
	concrete *rand.Rand
	globalSlots map[*Val]string // C13 monitor: memory reachable from package-level variables after init
	obs      []string
	zeroReads int

	skipPhi bool
	inArm   bool
	ordered map[*ssa.BasicBlock][]ssa.Instruction

	// accumulated
	Steps      int64
	Paths      int
	Obligs     int
	Discharged int
	IfConv     int
	Reordered  map[string]bool
	Labels     map[string]*labelStat
	FuncsSeen  map[string]int
	Reach      map[string]int
	NontrivPaths int
}

type captured struct {
	T types.Type
	V Val
}

type blobInfo struct {
	kind string // "thrift", "snappy", "gzip"
	cap  int    // index into captured (thrift)
	src  []Val  // uncompressed source snapshot (codecs)
	n    int    // concrete length (mode A)
}

func (m *Machine) fresh(sort int, hint string) *Term {
	m.nsym++
	name := fmt.Sprintf("%s!%d", hint, m.nsym)
	m.sol.Declare(name, sort)
	return &Term{name, sort}
}

func (m *Machine) freshDraw(sort int, kind string) *Term {
	t := m.fresh(sort, kind)
	m.draws = append(m.draws, Draw{Kind: kind, Name: t.S, Bits: sort})
	return t
}

// assume adds a conjunct to the path condition.
func (m *Machine) assume(c *Term) {
	m.sol.Assert(c)
	if m.opt.PoolStale > 0 {
		m.pcLog = append(m.pcLog, c.S)
	}
}

// decide resolves a symbolic branch condition.
func (m *Machine) decide(c *Term) bool {
	if c.S == "true" {
		return true
	}
	if c.S == "false" {
		return false
	}
	if m.inArm {
		panic(Unsupported{"decision inside if-converted arm"})
	}
	i := len(m.taken)
	var d bool
	if i < len(m.prefix) {
		d = m.prefix[i] == 1
	} else {
		rT := m.sol.Check(c)
		if rT == "unsat" {
			d = false
		} else {
			rF := m.sol.Check(m.tNot(c))
			if rF == "unsat" {
				d = true
			} else {
				// both feasible (unknown counts as feasible: keep)
				alt := append(append([]int{}, m.taken...), 0)
				m.newAlts = append(m.newAlts, alt)
				d = true
			}
		}
	}
	if d {
		m.taken = append(m.taken, 1)
		m.assume(c)
	} else {
		m.taken = append(m.taken, 0)
		m.assume(m.tNot(c))
	}
	return d
}

// choose is an n-ary decision that needs no solver.
func (m *Machine) choose(n int) int {
	if n <= 0 {
		panic(Unsupported{"Choose(0)"})
	}
	if n == 1 {
		return 0
	}
	if m.inArm {
		panic(Unsupported{"choice inside if-converted arm"})
	}
	if m.concrete != nil {
		return m.concrete.Intn(n)
	}
	i := len(m.taken)
	k := 0
	if i < len(m.prefix) {
		k = m.prefix[i]
	} else {
		for j := n - 1; j >= 1; j-- {
			alt := append(append([]int{}, m.taken...), j)
			m.newAlts = append(m.newAlts, alt)
		}
	}
	m.taken = append(m.taken, k)
	return k
}

// concretize forks over the feasible values of a symbolic int.
func (m *Machine) concretize(i Int, what string) int {
	return m.concretizeN(i, what, 64)
}

// concretizeN forks on the feasible values of i, at most max of them.
func (m *Machine) concretizeN(i Int, what string, max int) int {
	if i.T == nil {
		return i.AsInt()
	}
	for n := 0; n < max+6; n++ {
		var val uint64
		if len(m.taken) < len(m.prefix) {
			// replaying: the decision is recorded, value is needed only on "equal"
			if m.prefix[len(m.taken)] == 1 {
				// need the value: it was stored right after the decision
				m.taken = append(m.taken, 1)
				val = uint64(m.prefix[len(m.taken)])
				m.taken = append(m.taken, int(val))
				m.assume(m.tEq(i.T, bvConst(val, i.Bits)))
				return Int{Bits: i.Bits, Signed: i.Signed, C: val & mask(i.Bits)}.AsInt()
			}
			m.taken = append(m.taken, 0)
			val = uint64(m.prefix[len(m.taken)])
			m.taken = append(m.taken, int(val))
			m.assume(m.tNot(m.tEq(i.T, bvConst(val, i.Bits))))
			continue
		}
		// name the term so that get-value returns a parsable pair
		probe := m.fresh(i.Bits, "cz")
		m.sol.Assert(m.tEq(probe, i.T))
		r, model := m.sol.CheckModel(nil, []string{probe.S})
		if r != "sat" {
			panic(Unsupported{"concretize: path condition not sat (" + r + ") for " + what})
		}
		mv, okv := model[probe.S]
		if !okv {
			panic(Unsupported{"concretize: no model value for " + what})
		}
		val = modelUint(mv)
		eq := m.tEq(i.T, bvConst(val, i.Bits))
		rF := m.sol.Check(m.tNot(eq))
		if rF != "unsat" {
			alt := append(append([]int{}, m.taken...), 0, int(val))
			m.newAlts = append(m.newAlts, alt)
		}
		m.taken = append(m.taken, 1, int(val))
		m.assume(eq)
		return Int{Bits: i.Bits, Signed: i.Signed, C: val & mask(i.Bits)}.AsInt()
	}
	panic(Unsupported{fmt.Sprintf("concretize: more than %d feasible values for %s", max, what)})
}

func (m *Machine) get(fr *frame, v ssa.Value) Val {
	switch x := v.(type) {
	case *ssa.Const:
		return constVal(x)
	case *ssa.Global:
		return Ptr{m.global(x)}
	case *ssa.Function:
		return Func{Fn: x}
	case *ssa.Builtin:
		return Func{Builtin: x}
	}
	r, ok := fr.env[v]
	if !ok {
		panic(fmt.Sprintf("no value for %s in %s", v.Name(), fr.fn))
	}
	return r
}

func (m *Machine) global(x *ssa.Global) *Val {
	p, ok := m.globals[x]
	if !ok {
		p = new(Val)
		et := x.Type().(*types.Pointer).Elem()
		*p = zero(et)
		// error sentinels of packages whose init is not run (io.EOF, …)
		if x.Pkg != nil && !m.initOK(x.Pkg.Pkg.Path()) {
			if types.Identical(et, types.Universe.Lookup("error").Type()) {
				*p = m.newError()
			}
		}
		m.globals[x] = p
		if m.globalSlots != nil && !strings.HasSuffix(x.Name(), "init$guard") {
			m.regGlobal(p, x.String()) // a global first touched after initialisation
		}
	}
	return p
}

// newError returns a fresh distinct non-nil error value.
func (m *Machine) newError() Val {
	ep := m.prog.ImportedPackage("errors")
	if ep == nil {
		panic(Unsupported{"package errors not loaded"})
	}
	t := ep.Type("errorString").Type()
	p := new(Val)
	*p = zero(t)
	return Iface{T: types.NewPointer(t), V: Ptr{p}}
}

func constVal(c *ssa.Const) Val {
	t := c.Type()
	if c.Value == nil {
		return zero(t)
	}
	if bits, signed, ok := intInfo(t); ok {
		if signed {
			v, _ := constant.Int64Val(constant.ToInt(c.Value))
			return cInt(uint64(v), bits, true)
		}
		v, _ := constant.Uint64Val(constant.ToInt(c.Value))
		return cInt(v, bits, false)
	}
	b, ok := t.Underlying().(*types.Basic)
	if !ok {
		panic(Unsupported{"const " + c.String()})
	}
	switch b.Kind() {
	case types.Bool, types.UntypedBool:
		return Bool{C: constant.BoolVal(c.Value)}
	case types.String, types.UntypedString:
		return Str{C: constant.StringVal(c.Value)}
	case types.Float32:
		f, _ := constant.Float64Val(c.Value)
		return Float{Bits: 32, C: uint64(math.Float32bits(float32(f)))}
	case types.Float64, types.UntypedFloat:
		f, _ := constant.Float64Val(c.Value)
		return Float{Bits: 64, C: math.Float64bits(f)}
	}
	panic(Unsupported{"const " + c.String()})
}

func (m *Machine) initOK(path string) bool {
	for _, p := range m.opt.InitPrefixes {
		if strings.HasPrefix(path, p) {
			for _, ex := range m.opt.InitExclude {
				if path == ex {
					return false
				}
			}
			return true
		}
	}
	return false
}

func (m *Machine) callFn(fn *ssa.Function, args []Val, env []Val) (res Val) {
	name := fn.String()
	if in, ok := m.intr[name]; ok {
		return in(m, args)
	}
	if fn.Pkg != nil {
		if in, ok := m.intr["*."+fn.Name()]; ok && fn.Signature.Recv() == nil && fn.Blocks == nil {
			return in(m, args)
		}
	}
	if fn.Name() == "init" && fn.Pkg != nil && fn.Signature.Recv() == nil && !m.initOK(fn.Pkg.Pkg.Path()) {
		return nil
	}
	if fn.Blocks == nil {
		panic(Unsupported{"external function " + name})
	}
	m.FuncsSeen[name]++
	if len(m.frames) > 400 {
		panic(Unsupported{"call depth exceeded in " + name})
	}
	fr := &frame{fn: fn, env: make(map[ssa.Value]Val, 32)}
	for i, p := range fn.Params {
		fr.env[p] = args[i]
	}
	for i, fv := range fn.FreeVars {
		fr.env[fv] = env[i]
	}
	m.frames = append(m.frames, fr)
	defer func() {
		m.frames = m.frames[:len(m.frames)-1]
		if r := recover(); r != nil {
			if _, isPanic := r.(GoPanic); isPanic && len(fr.defers) > 0 {
				// run the deferred calls of the unwound frame
				ds := fr.defers
				fr.defers = nil
				for i := len(ds) - 1; i >= 0; i-- {
					m.callValue(ds[i].call, ds[i].fn, ds[i].args)
				}
			}
			panic(r)
		}
	}()
	return m.run(fr)
}

func (m *Machine) where(fr *frame, in ssa.Instruction) string {
	pos := m.prog.Fset.Position(in.Pos())
	f := pos.Filename
	if i := strings.LastIndex(f, "/"); i >= 0 {
		f = f[i+1:]
	}
	return fmt.Sprintf("%s (%s:%d)", fr.fn.String(), f, pos.Line)
}

func (m *Machine) run(fr *frame) Val {
	var prev *ssa.BasicBlock
	b := fr.fn.Blocks[0]
	for {
	instrs:
		for _, in := range m.order(b) {
			if _, isPhi := in.(*ssa.Phi); !isPhi {
				m.skipPhi = false
			}
			m.steps++
			if m.steps > m.opt.MaxSteps {
				panic(Unsupported{"step budget exceeded (unwinding assertion)"})
			}
			switch x := in.(type) {
			case *ssa.DebugRef:
			case *ssa.Alloc:
				p := new(Val)
				*p = zero(x.Type().(*types.Pointer).Elem())
				fr.env[x] = Ptr{p}
			case *ssa.BinOp:
				fr.env[x] = m.binop(x.Op, m.get(fr, x.X), m.get(fr, x.Y))
			case *ssa.UnOp:
				fr.env[x] = m.unop(fr, x, m.get(fr, x.X))
			case *ssa.Call:
				fr.env[x] = m.call(fr, &x.Call)
			case *ssa.ChangeInterface:
				fr.env[x] = m.get(fr, x.X)
			case *ssa.ChangeType:
				fr.env[x] = m.get(fr, x.X)
			case *ssa.Convert:
				fr.env[x] = m.convert(m.get(fr, x.X), x.X.Type(), x.Type())
			case *ssa.Defer:
				args := make([]Val, len(x.Call.Args))
				for i, a := range x.Call.Args {
					args[i] = m.get(fr, a)
				}
				fr.defers = append(fr.defers, deferred{fn: m.get(fr, x.Call.Value), args: args, call: &x.Call})
			case *ssa.Extract:
				fr.env[x] = m.get(fr, x.Tuple).(Tuple)[x.Index]
			case *ssa.Field:
				fr.env[x] = copyVal(m.get(fr, x.X).(Struct)[x.Field])
			case *ssa.FieldAddr:
				p := m.get(fr, x.X).(Ptr)
				if p.P == nil {
					panic(GoPanic{"nil pointer dereference in " + m.where(fr, x)})
				}
				m.checkReleased(p.P)
				s := (*p.P).(Struct)
				fr.env[x] = Ptr{&s[x.Field]}
			case *ssa.If:
				c := m.get(fr, x.Cond).(Bool)
				var t bool
				if c.T == nil {
					t = c.C
				} else {
					if j, ok := m.ifConvert(fr, b, c.T); ok {
						prev = nil
						b = j
						m.skipPhi = true
						break instrs
					}
					t = m.decide(c.T)
				}
				prev = b
				if t {
					b = b.Succs[0]
				} else {
					b = b.Succs[1]
				}
				break instrs
			case *ssa.Index:
				switch c := m.get(fr, x.X).(type) {
				case Array:
					i := m.concretize(m.get(fr, x.Index).(Int), "array index")
					if i < 0 || i >= len(c) {
						panic(GoPanic{"index out of range in " + m.where(fr, x)})
					}
					fr.env[x] = copyVal(c[i])
				case Str:
					bs := strBytes(c)
					i := m.concretize(m.get(fr, x.Index).(Int), "string index")
					if i < 0 || i >= len(bs) {
						panic(GoPanic{"string index out of range in " + m.where(fr, x)})
					}
					fr.env[x] = bs[i]
				default:
					panic(Unsupported{fmt.Sprintf("Index on %T in %s", c, fr.fn)})
				}
			case *ssa.IndexAddr:
				fr.env[x] = m.indexAddr(fr, x, m.get(fr, x.X), m.get(fr, x.Index).(Int))
			case *ssa.Jump:
				prev = b
				b = b.Succs[0]
				break instrs
			case *ssa.Lookup:
				fr.env[x] = m.lookup(fr, x, m.get(fr, x.X), m.get(fr, x.Index))
			case *ssa.MakeClosure:
				env := make([]Val, len(x.Bindings))
				for i, bnd := range x.Bindings {
					env[i] = m.get(fr, bnd)
				}
				fr.env[x] = Func{Fn: x.Fn.(*ssa.Function), Env: env}
			case *ssa.MakeInterface:
				fr.env[x] = Iface{T: x.X.Type(), V: m.get(fr, x.X)}
			case *ssa.MakeMap:
				fr.env[x] = Map{M: map[interface{}]*Val{}, Keys: new([]interface{})}
			case *ssa.MakeSlice:
				fr.env[x] = m.makeSlice(fr, x)
			case *ssa.MapUpdate:
				mp := m.get(fr, x.Map).(Map)
				if mp.Nil {
					panic(GoPanic{"assignment to entry in nil map in " + m.where(fr, x)})
				}
				k := mapKey(m.get(fr, x.Key))
				slot, ok := mp.M[k]
				if !ok {
					slot = new(Val)
					mp.M[k] = slot
					*mp.Keys = append(*mp.Keys, k)
				}
				*slot = copyVal(m.get(fr, x.Value))
			case *ssa.Panic:
				panic(GoPanic{"explicit panic in " + m.where(fr, x)})
			case *ssa.Phi:
				if m.skipPhi {
					continue
				}
				for i, p := range b.Preds {
					if p == prev {
						fr.env[x] = m.get(fr, x.Edges[i])
						break
					}
				}
			case *ssa.Range:
				fr.env[x] = m.rangeIter(m.get(fr, x.X))
			case *ssa.Next:
				fr.env[x] = m.next(x, m.get(fr, x.Iter).(Iter))
			case *ssa.Return:
				var res Val
				switch len(x.Results) {
				case 0:
				case 1:
					res = m.get(fr, x.Results[0])
				default:
					t := make(Tuple, len(x.Results))
					for i, r := range x.Results {
						t[i] = m.get(fr, r)
					}
					res = t
				}
				return res
			case *ssa.RunDefers:
				ds := fr.defers
				fr.defers = nil
				for i := len(ds) - 1; i >= 0; i-- {
					m.callValue(ds[i].call, ds[i].fn, ds[i].args)
				}
			case *ssa.Slice:
				fr.env[x] = m.slice(x, fr)
			case *ssa.Store:
				p := m.get(fr, x.Addr).(Ptr)
				if p.P == nil {
					panic(GoPanic{"nil pointer dereference (store) in " + m.where(fr, x)})
				}
				m.checkReleased(p.P)
				if g, ok := x.Addr.(*ssa.Global); ok {
					m.globalStore(fr, g)
				} else {
					m.checkGlobalWrite(p.P)
				}
				assign(p.P, m.get(fr, x.Val))
			case *ssa.TypeAssert:
				fr.env[x] = m.typeAssert(fr, x, m.get(fr, x.X).(Iface))
			default:
				panic(Unsupported{fmt.Sprintf("instruction %T in %s", in, fr.fn)})
			}
		}
	}
}

// globalStore is the C13 monitor: a store to a package-level variable
// outside package initialisation.
func (m *Machine) globalStore(fr *frame, g *ssa.Global) {
	if !m.opt.MonitorGlobals {
		return
	}
	for _, f := range m.frames {
		if f.fn.Name() == "init" || strings.HasPrefix(f.fn.Name(), "init#") {
			return
		}
	}
	if strings.HasSuffix(g.Name(), "init$guard") {
		return
	}
	m.violate("global-store", "concrete", "store to package-level variable "+g.String()+" in "+fr.fn.String())
}

// registerGlobals walks everything reachable from the package-level
// variables (after init) so that later writes to it can be reported.
func (m *Machine) registerGlobals() {
	m.globalSlots = map[*Val]string{}
	for g, p := range m.globals {
		if strings.HasSuffix(g.Name(), "init$guard") {
			continue
		}
		m.regGlobal(p, g.String())
	}
}

func (m *Machine) regGlobal(root *Val, rootName string) {
	var walk func(p *Val, name string, depth int)
	walk = func(p *Val, name string, depth int) {
		if p == nil || depth > 6 {
			return
		}
		if _, seen := m.globalSlots[p]; seen {
			return
		}
		m.globalSlots[p] = name
		switch v := (*p).(type) {
		case Struct:
			for i := range v {
				walk(&v[i], name, depth+1)
			}
		case Array:
			for i := range v {
				walk(&v[i], name, depth+1)
			}
		case Slice:
			full := v.V[:cap(v.V)]
			for i := range full {
				walk(&full[i], name, depth+1)
			}
		case Ptr:
			walk(v.P, name, depth+1)
		}
	}
	walk(root, rootName, 0)
}

// checkGlobalWrite is the C13 monitor for writes into memory reachable from
// package-level variables (outside package initialisation).
func (m *Machine) checkGlobalWrite(p *Val) {
	if m.globalSlots == nil {
		return
	}
	if name, ok := m.globalSlots[p]; ok {
		for _, f := range m.frames {
			if f.fn.Name() == "init" || strings.HasPrefix(f.fn.Name(), "init#") {
				return
			}
		}
		m.violate("global-store", "concrete", "write to memory of package-level variable "+name)
	}
}

func (m *Machine) checkReleased(p *Val) {
	if len(m.released) == 0 {
		return
	}
	if why, ok := m.released[p]; ok {
		m.violate("use-after-put", "concrete", "access to pooled buffer after Put ("+why+")")
	}
}

func (m *Machine) makeSlice(fr *frame, x *ssa.MakeSlice) Val {
	ln := m.get(fr, x.Len).(Int)
	cp := m.get(fr, x.Cap).(Int)
	if ln.T != nil {
		// negative / huge lengths panic in Go
		neg := m.app(0, "bvslt", ln.T, bvConst(0, ln.Bits))
		if m.decide(neg) {
			panic(GoPanic{"makeslice: len out of range in " + m.where(fr, x)})
		}
		big := m.app(0, "bvsgt", ln.T, bvConst(uint64(m.opt.MaxAlloc), ln.Bits))
		if m.decide(big) {
			panic(Unsupported{"makeslice: symbolic length above MaxAlloc in " + m.where(fr, x)})
		}
	}
	sameCap := x.Len == x.Cap
	n := m.concretize(ln, "make length")
	c := n
	if !sameCap {
		c = m.concretize(cp, "make cap")
	}
	if n < 0 || c < n {
		panic(GoPanic{"makeslice: len out of range in " + m.where(fr, x)})
	}
	if n > m.opt.MaxAlloc {
		panic(Unsupported{fmt.Sprintf("makeslice: length %d above MaxAlloc in %s", n, m.where(fr, x))})
	}
	el := x.Type().Underlying().(*types.Slice).Elem()
	v := make([]Val, n, c)
	for i := range v {
		v[i] = zero(el)
	}
	return Slice{V: v}
}

func mapKey(v Val) interface{} {
	switch k := v.(type) {
	case Str:
		if k.Sym {
			panic(Unsupported{"symbolic string map key"})
		}
		return k.C
	case Int:
		if k.T != nil {
			panic(Unsupported{"symbolic int map key"})
		}
		return k.C
	case Ptr:
		return k.P
	case Bool:
		return k.C
	}
	panic(Unsupported{fmt.Sprintf("map key %T", v)})
}

func keyVal(k interface{}, t types.Type) Val {
	switch x := k.(type) {
	case string:
		return Str{C: x}
	case uint64:
		bits, signed, _ := intInfo(t)
		return cInt(x, bits, signed)
	case *Val:
		return Ptr{x}
	case bool:
		return Bool{C: x}
	}
	panic(Unsupported{"map key kind"})
}

func (m *Machine) rangeIter(c Val) Val {
	i := new(int)
	switch x := c.(type) {
	case Map:
		var keys []interface{}
		if !x.Nil {
			keys = append(keys, (*x.Keys)...)
		}
		if len(keys) >= 2 {
			m.reached["map-range-over-2+-entries"] = true
		}
		if m.opt.ReverseMaps {
			for a, b := 0, len(keys)-1; a < b; a, b = a+1, b-1 {
				keys[a], keys[b] = keys[b], keys[a]
			}
		}
		return Iter{Keys: keys, M: x, I: i}
	case Str:
		return Iter{S: strBytes(x), IsS: true, I: i}
	}
	panic(Unsupported{fmt.Sprintf("range over %T", c)})
}

func (m *Machine) next(x *ssa.Next, it Iter) Val {
	if it.IsS {
		if *it.I >= len(it.S) {
			return Tuple{Bool{C: false}, goInt(0), cInt(0, 32, true)}
		}
		b := it.S[*it.I]
		if b.T != nil || b.C >= 0x80 {
			panic(Unsupported{"range over non-ASCII/symbolic string"})
		}
		idx := *it.I
		*it.I++
		return Tuple{Bool{C: true}, goInt(idx), cInt(b.C, 32, true)}
	}
	mt := x.Iter.(*ssa.Range).X.Type().Underlying().(*types.Map)
	for *it.I < len(it.Keys) {
		k := it.Keys[*it.I]
		*it.I++
		if slot, ok := it.M.M[k]; ok {
			return Tuple{Bool{C: true}, keyVal(k, mt.Key()), copyVal(*slot)}
		}
	}
	return Tuple{Bool{C: false}, zero(mt.Key()), zero(mt.Elem())}
}

func (m *Machine) lookup(fr *frame, x *ssa.Lookup, c Val, idx Val) Val {
	switch mp := c.(type) {
	case Map:
		var v Val
		ok := false
		if !mp.Nil {
			if slot, found := mp.M[mapKey(idx)]; found {
				v, ok = copyVal(*slot), true
			}
		}
		if !ok {
			v = zero(x.X.Type().Underlying().(*types.Map).Elem())
		}
		if x.CommaOk {
			return Tuple{v, Bool{C: ok}}
		}
		return v
	case Str:
		bs := strBytes(mp)
		i := m.concretize(idx.(Int), "string index")
		if i < 0 || i >= len(bs) {
			panic(GoPanic{"string index out of range in " + m.where(fr, x)})
		}
		return bs[i]
	}
	panic(Unsupported{fmt.Sprintf("lookup on %T", c)})
}

func (m *Machine) indexAddr(fr *frame, x *ssa.IndexAddr, c Val, idx Int) Val {
	switch s := c.(type) {
	case Slice:
		if s.Blob != nil {
			panic(Unsupported{"indexing an opaque blob in " + m.where(fr, x)})
		}
		i := m.concretizeIndex(idx, len(s.V))
		if i < 0 || i >= len(s.V) {
			panic(GoPanic{fmt.Sprintf("index out of range [%d] with length %d in %s", i, len(s.V), m.where(fr, x))})
		}
		m.checkReleased(&s.V[i])
		return Ptr{&s.V[i]}
	case Ptr:
		if s.P == nil {
			panic(GoPanic{"nil pointer dereference (IndexAddr) in " + m.where(fr, x)})
		}
		a := (*s.P).(Array)
		i := m.concretizeIndex(idx, len(a))
		if i < 0 || i >= len(a) {
			panic(GoPanic{"index out of range in " + m.where(fr, x)})
		}
		return Ptr{&a[i]}
	}
	panic(Unsupported{fmt.Sprintf("IndexAddr on %T", c)})
}

// concretizeIndex resolves a symbolic index: first the out-of-range case
// (one decision), then the feasible in-range values.
func (m *Machine) concretizeIndex(idx Int, n int) int {
	if idx.T == nil {
		return idx.AsInt()
	}
	if idx.Bits < 64 && uint64(n) > mask(idx.Bits) {
		// the length does not fit the index type (a [256]T indexed by a byte):
		// only a negative signed index can be out of range
		if idx.Signed && m.decide(m.app(0, "bvslt", idx.T, bvConst(0, idx.Bits))) {
			return -1
		}
		return m.concretizeN(idx, "index", 256)
	}
	op := "bvuge" // as unsigned: negative values are ≥ n too
	if m.decide(m.app(0, op, idx.T, bvConst(uint64(n), idx.Bits))) {
		return -1
	}
	return m.concretizeN(idx, "index", 256)
}

func (m *Machine) slice(x *ssa.Slice, fr *frame) Val {
	c := m.get(fr, x.X)
	bound := func(v ssa.Value, def int) int {
		if v == nil {
			return def
		}
		return m.concretize(m.get(fr, v).(Int), "slice bound")
	}
	switch s := c.(type) {
	case Slice:
		if s.Blob != nil {
			if x.Low == nil && x.High == nil {
				return s
			}
			panic(Unsupported{"slicing an opaque blob in " + m.where(fr, x)})
		}
		lo := bound(x.Low, 0)
		hi := bound(x.High, len(s.V))
		mx := bound(x.Max, cap(s.V))
		if lo < 0 || hi < lo || mx < hi || mx > cap(s.V) {
			panic(GoPanic{fmt.Sprintf("slice bounds out of range [%d:%d:%d] with capacity %d in %s", lo, hi, mx, cap(s.V), m.where(fr, x))})
		}
		if s.Nil && hi == 0 {
			return s
		}
		return Slice{V: s.V[lo:hi:mx]}
	case Str:
		bs := strBytes(s)
		lo := bound(x.Low, 0)
		hi := bound(x.High, len(bs))
		if lo < 0 || hi < lo || hi > len(bs) {
			panic(GoPanic{"string slice bounds out of range in " + m.where(fr, x)})
		}
		return mkStr(bs[lo:hi])
	case Ptr:
		if s.P == nil {
			panic(GoPanic{"nil pointer dereference (slice of array) in " + m.where(fr, x)})
		}
		a := (*s.P).(Array)
		lo := bound(x.Low, 0)
		hi := bound(x.High, len(a))
		mx := bound(x.Max, len(a))
		if lo < 0 || hi < lo || mx < hi || mx > len(a) {
			panic(GoPanic{"array slice bounds out of range in " + m.where(fr, x)})
		}
		return Slice{V: []Val(a)[lo:hi:mx]}
	}
	panic(Unsupported{fmt.Sprintf("Slice on %T", c)})
}

func (m *Machine) typeAssert(fr *frame, x *ssa.TypeAssert, v Iface) Val {
	ok := false
	_, isI := x.AssertedType.Underlying().(*types.Interface)
	if v.T != nil {
		if isI {
			ok = types.Implements(v.T, x.AssertedType.Underlying().(*types.Interface))
		} else {
			ok = types.Identical(v.T, x.AssertedType)
		}
	}
	var res Val
	if ok {
		if isI {
			res = v
		} else {
			res = v.V
		}
	} else {
		res = zero(x.AssertedType)
	}
	if x.CommaOk {
		return Tuple{res, Bool{C: ok}}
	}
	if !ok {
		panic(GoPanic{"interface conversion failed in " + m.where(fr, x)})
	}
	return res
}

func (m *Machine) call(fr *frame, c *ssa.CallCommon) Val {
	args := make([]Val, 0, len(c.Args)+1)
	if c.IsInvoke() {
		recv := m.get(fr, c.Value).(Iface)
		for _, a := range c.Args {
			args = append(args, m.get(fr, a))
		}
		return m.invoke(fr, recv, c.Method, args)
	}
	for _, a := range c.Args {
		args = append(args, m.get(fr, a))
	}
	return m.callValue(c, m.get(fr, c.Value), args)
}

func (m *Machine) invoke(fr *frame, recv Iface, method *types.Func, args []Val) Val {
	if recv.T == nil {
		w := ""
		if fr != nil {
			w = " in " + fr.fn.String()
		}
		panic(GoPanic{"nil interface method call ." + method.Name() + w})
	}
	fn := m.prog.LookupMethod(recv.T, method.Pkg(), method.Name())
	if fn == nil {
		panic(Unsupported{"method not found " + method.Name() + " on " + recv.T.String()})
	}
	return m.callFn(fn, append([]Val{recv.V}, args...), nil)
}

// callMethod calls a method by name on an interface value (for models).
func (m *Machine) callMethod(recv Iface, name string, args ...Val) Val {
	if recv.T == nil {
		panic(GoPanic{"nil interface method call ." + name})
	}
	var pkg *types.Package
	if !token.IsExported(name) {
		if n, ok := derefNamed(recv.T); ok {
			pkg = n.Obj().Pkg()
		}
	}
	fn := m.prog.LookupMethod(recv.T, pkg, name)
	if fn == nil {
		panic(Unsupported{"method not found " + name + " on " + recv.T.String()})
	}
	return m.callFn(fn, append([]Val{recv.V}, args...), nil)
}

func derefNamed(t types.Type) (*types.Named, bool) {
	if p, ok := t.(*types.Pointer); ok {
		t = p.Elem()
	}
	n, ok := t.(*types.Named)
	return n, ok
}

func (m *Machine) callValue(c *ssa.CallCommon, fv Val, args []Val) Val {
	if c != nil && c.IsInvoke() {
		return m.invoke(nil, fv.(Iface), c.Method, args)
	}
	f := fv.(Func)
	if f.Builtin != nil {
		return m.builtin(f.Builtin, args)
	}
	if f.Nil || f.Fn == nil {
		panic(GoPanic{"call of nil func"})
	}
	return m.callFn(f.Fn, args, f.Env)
}

func (m *Machine) builtin(b *ssa.Builtin, args []Val) Val {
	switch b.Name() {
	case "len":
		switch x := args[0].(type) {
		case Slice:
			if x.Blob != nil {
				return x.Blob.Len
			}
			return goInt(len(x.V))
		case Str:
			return goInt(strLen(x))
		case Map:
			n := 0
			if !x.Nil {
				n = len(x.M)
			}
			return goInt(n)
		case Array:
			return goInt(len(x))
		case Ptr:
			return goInt(len((*x.P).(Array)))
		}
	case "cap":
		switch x := args[0].(type) {
		case Slice:
			if x.Blob != nil {
				return x.Blob.Len
			}
			return goInt(cap(x.V))
		case Array:
			return goInt(len(x))
		}
	case "append":
		s := args[0].(Slice)
		var add []Val
		switch t := args[1].(type) {
		case Slice:
			if t.Blob != nil && s.Blob == nil && len(s.V) == 0 {
				return t // append(empty, blob...) is the blob
			}
			if t.Blob != nil || s.Blob != nil {
				panic(Unsupported{"append of opaque blob"})
			}
			add = t.V
		case Str:
			for _, bb := range strBytes(t) {
				add = append(add, bb)
			}
		}
		if len(add) == 0 {
			return s
		}
		cp := make([]Val, len(add))
		for i := range add {
			if len(m.released) > 0 {
				m.checkReleased(&add[i])
			}
			cp[i] = copyVal(add[i])
		}
		if len(s.V)+len(cp) <= cap(s.V) {
			// in place: Go writes into the shared backing array
			dst := s.V[:len(s.V)+len(cp)]
			if m.globalSlots != nil && len(cp) > 0 {
				m.checkGlobalWrite(&dst[len(s.V)])
			}
			copy(dst[len(s.V):], cp)
			return Slice{V: dst}
		}
		nv := make([]Val, len(s.V), (len(s.V)+len(cp))*2)
		copy(nv, s.V)
		return Slice{V: append(nv, cp...)}
	case "copy":
		d := args[0].(Slice)
		var src []Val
		switch t := args[1].(type) {
		case Slice:
			if t.Blob != nil || d.Blob != nil {
				panic(Unsupported{"copy of opaque blob"})
			}
			src = t.V
		case Str:
			for _, bb := range strBytes(t) {
				src = append(src, bb)
			}
		}
		n := len(d.V)
		if len(src) < n {
			n = len(src)
		}
		tmp := make([]Val, n)
		for i := 0; i < n; i++ {
			if len(m.released) > 0 {
				m.checkReleased(&src[i])
			}
			tmp[i] = copyVal(src[i])
		}
		if m.globalSlots != nil && n > 0 {
			m.checkGlobalWrite(&d.V[0])
		}
		copy(d.V, tmp)
		return goInt(n)
	case "delete":
		mp := args[0].(Map)
		if !mp.Nil {
			delete(mp.M, mapKey(args[1]))
		}
		return nil
	case "min", "max":
		a, bb := args[0].(Int), args[1].(Int)
		if a.T == nil && bb.T == nil {
			less := a.C < bb.C
			if a.Signed {
				less = a.SignedVal() < bb.SignedVal()
			}
			if (b.Name() == "min") == less {
				return a
			}
			return bb
		}
	}
	panic(Unsupported{"builtin " + b.Name()})
}

func (m *Machine) unop(fr *frame, x *ssa.UnOp, v Val) Val {
	switch x.Op {
	case token.MUL:
		p := v.(Ptr)
		if p.P == nil {
			panic(GoPanic{"nil pointer dereference (load) in " + m.where(fr, x)})
		}
		m.checkReleased(p.P)
		return copyVal(*p.P)
	case token.NOT:
		b := v.(Bool)
		if b.T == nil {
			return Bool{C: !b.C}
		}
		return mkBool(m.tNot(b.T))
	case token.SUB:
		switch i := v.(type) {
		case Int:
			if i.T == nil {
				return cInt(-i.C, i.Bits, i.Signed)
			}
			return Int{Bits: i.Bits, Signed: i.Signed, T: m.app(i.Bits, "bvneg", i.T)}
		}
	case token.XOR:
		i := v.(Int)
		if i.T == nil {
			return cInt(^i.C, i.Bits, i.Signed)
		}
		return Int{Bits: i.Bits, Signed: i.Signed, T: m.app(i.Bits, "bvnot", i.T)}
	}
	panic(Unsupported{"unop " + x.Op.String()})
}

func (m *Machine) convert(v Val, from, to types.Type) Val {
	if tb, ts, ok := intInfo(to); ok {
		if i, isInt := v.(Int); isInt {
			_, fs, _ := intInfo(from)
			if i.T == nil {
				if fs {
					return cInt(uint64(i.SignedVal()), tb, ts)
				}
				return cInt(i.C, tb, ts)
			}
			switch {
			case tb == i.Bits:
				return Int{Bits: tb, Signed: ts, T: i.T}
			case tb < i.Bits:
				// byte(x >> 8k) is a plain bit-field of x: keep it recognisable for the solver's rewriter
				if x, c, ok := splitLshr(i.T.S, i.Bits); ok && c+tb <= i.Bits {
					return Int{Bits: tb, Signed: ts, T: m.app(tb, fmt.Sprintf("(_ extract %d %d)", c+tb-1, c), &Term{x, i.Bits})}
				}
				return Int{Bits: tb, Signed: ts, T: m.app(tb, fmt.Sprintf("(_ extract %d 0)", tb-1), i.T)}
			case fs:
				return Int{Bits: tb, Signed: ts, T: m.app(tb, fmt.Sprintf("(_ sign_extend %d)", tb-i.Bits), i.T)}
			default:
				return Int{Bits: tb, Signed: ts, T: m.app(tb, fmt.Sprintf("(_ zero_extend %d)", tb-i.Bits), i.T)}
			}
		}
		if _, isF := v.(Float); isF {
			panic(Unsupported{"convert float->int"})
		}
	}
	switch tu := to.Underlying().(type) {
	case *types.Slice: // []byte(string)
		s := v.(Str)
		var out []Val
		for _, b := range strBytes(s) {
			out = append(out, b)
		}
		if out == nil {
			out = []Val{}
		}
		return Slice{V: out}
	case *types.Basic:
		if tu.Kind() == types.String {
			switch s := v.(type) {
			case Slice:
				bs := make([]Int, len(s.V))
				for i, e := range s.V {
					bs[i] = e.(Int)
				}
				return mkStr(bs)
			case Str:
				return s
			case Int:
				if s.T == nil && s.C < 0x80 {
					return Str{C: string(rune(s.C))}
				}
			}
		}
		if tu.Kind() == types.Float64 || tu.Kind() == types.Float32 {
			if f, ok := v.(Float); ok {
				bits := 64
				if tu.Kind() == types.Float32 {
					bits = 32
				}
				if f.Bits == bits {
					return f
				}
				if f.T == nil {
					if bits == 32 {
						return Float{Bits: 32, C: uint64(math.Float32bits(float32(math.Float64frombits(f.C))))}
					}
					return Float{Bits: 64, C: math.Float64bits(float64(math.Float32frombits(uint32(f.C))))}
				}
			}
			if i, ok := v.(Int); ok && i.T == nil {
				var fv float64
				if i.Signed {
					fv = float64(i.SignedVal())
				} else {
					fv = float64(i.C)
				}
				if tu.Kind() == types.Float32 {
					return Float{Bits: 32, C: uint64(math.Float32bits(float32(fv)))}
				}
				return Float{Bits: 64, C: math.Float64bits(fv)}
			}
		}
	case *types.Pointer:
		return v
	}
	panic(Unsupported{fmt.Sprintf("convert %s -> %s", from, to)})
}

// splitLshr recognises "(bvlshr X #x…c)" and returns X and the shift count.
func splitLshr(t string, bits int) (string, int, bool) {
	if !strings.HasPrefix(t, "(bvlshr ") || !strings.HasSuffix(t, ")") {
		return "", 0, false
	}
	body := t[len("(bvlshr ") : len(t)-1]
	k := strings.LastIndex(body, " ")
	if k < 0 {
		return "", 0, false
	}
	x, c := body[:k], body[k+1:]
	if !strings.HasPrefix(c, "#x") {
		return "", 0, false
	}
	var n uint64
	if _, err := fmt.Sscanf(c[2:], "%x", &n); err != nil || n >= uint64(bits) {
		return "", 0, false
	}
	// X must be one balanced term
	depth := 0
	for i, ch := range x {
		if ch == '(' {
			depth++
		} else if ch == ')' {
			depth--
		} else if ch == ' ' && depth == 0 && i > 0 {
			return "", 0, false
		}
	}
	return x, int(n), true
}
