package main

import (
	"math/rand"
	"os"
	"runtime/debug"
	"strings"
	"fmt"
	"sort"
	"sync"
	"time"

	"golang.org/x/tools/go/ssa"
)

// Options are per job.
type Options struct {
	MaxSteps       int64    `json:"max_steps"`
	MaxAlloc       int      `json:"max_alloc"`
	MaxPaths       int      `json:"max_paths"`
	MaxWallS       int      `json:"max_wall_s"`
	MaxViolations  int      `json:"max_violations"`
	NoIfConv       bool     `json:"no_ifconv"`
	ModeB          bool     `json:"mode_b"`
	FixedHdr       bool     `json:"fixed_hdr"`
	ConcreteRuns   int      `json:"concrete_runs"` // differential mode: this many runs on pseudo-random concrete draws
	ConcreteSeed   int64    `json:"concrete_seed"`
	ConcreteU8Max  int      `json:"concrete_u8_max"` // differential mode: u8 draws are uniform in 0..max (0: default mix)
	HdrLen         int      `json:"hdr_len"` // mode A: every thrift blob has this many bytes (long headers / footers)
	PoolStale      int      `json:"pool_stale"`
	MonitorPool    bool     `json:"monitor_pool"`
	MonitorGlobals bool     `json:"monitor_globals"`
	ReverseMaps    bool     `json:"reverse_maps"`
	InitPrefixes   []string `json:"init_prefixes"`
	CompressDiv    int      `json:"compress_div"` // mode A: compressed length = max(1, len/div) instead of len + overhead
	InitExclude    []string `json:"init_exclude"`
	Stub           []string `json:"stub"` // extra function names replaced by no-ops
}

type Job struct {
	Name string  `json:"name"`
	Pkg  string  `json:"pkg"`
	Func string  `json:"func"`
	Args []int64 `json:"args"`
	Opt  Options `json:"opt"`
	// ExpectViolation: vacuity twin / seeded oracle fault — must be violated
	Expect string `json:"expect,omitempty"`
}

type Sample struct {
	Path   int      `json:"path"`
	Prefix []int    `json:"decisions"`
	Notes  []string `json:"notes,omitempty"`
	NDraws int      `json:"draws"`
	Oblig  int      `json:"symbolic_obligations"`
}

type JobResult struct {
	Name         string                `json:"name"`
	Pkg          string                `json:"pkg"`
	Func         string                `json:"func"`
	Args         []int64               `json:"args"`
	Paths        int                   `json:"paths"`
	NontrivPaths int                   `json:"nontrivial_paths"`
	Aborted      int                   `json:"aborted_paths"`
	Steps        int64                 `json:"steps"`
	Obligs       int                   `json:"obligations"`
	Discharged   int                   `json:"discharged"`
	Labels       map[string]*labelStat `json:"labels"`
	Violations   []Violation           `json:"violations"`
	NViolations  int                   `json:"n_violations"`
	Unsupported  map[string]int        `json:"unsupported"`
	Funcs        map[string]int        `json:"functions"`
	Reach        map[string]int        `json:"reach"`
	Queries      int                   `json:"solver_queries"`
	Fallbacks    int                   `json:"cvc5_fallbacks"`
	SolverTime   float64               `json:"solver_time_s"`
	IfConv       int                   `json:"ifconverted"`
	Reordered    []string              `json:"reordered_loads"`
	Truncated    bool                  `json:"truncated"`
	Stopped      bool                  `json:"stopped_after_violations"`
	SolverErrors []string              `json:"solver_errors"`
	Samples      []Sample              `json:"samples"`
	Concrete     []ConcreteRun         `json:"concrete_runs,omitempty"`
	DistinctNotes int                  `json:"distinct_notes"`
	noteSet      map[string]bool
	Wall         float64               `json:"wall_s"`
	CPU          float64               `json:"cpu_s"`
	Transcripts  []Transcript          `json:"-"`
	mu           sync.Mutex
	inflight     int
	busy         time.Duration
	started      time.Time
	fn           *ssa.Function
	inits        []*ssa.Function
	job          *Job
}

type Transcript struct {
	Script  []string
	Answers []string
}

type workItem struct {
	jr       *JobResult
	prefix   []int
	concrete int // > 0: differential run number (concrete draws), 0: symbolic
}

// ConcreteRun is one run of the harness on concrete pseudo-random draws;
// the native build must produce the same observations from the same draws.
type ConcreteRun struct {
	Run     int      `json:"run"`
	Draws   []Draw   `json:"draws"`
	Obs     []string `json:"obs"`
	Aborted bool     `json:"aborted"`
	Failed  []string `json:"failed"`
	Panic   string   `json:"panic,omitempty"`
}

type Explorer struct {
	prog    *ssa.Program
	mu      sync.Mutex
	cond    *sync.Cond
	order   []*JobResult // jobs in submission order; work of earlier jobs goes first
	stacks  map[*JobResult][]workItem
	first   int
	active  int
	timeout int
	workers int
	record  int // transcripts to keep per job
	// deadline of the whole run: afterwards no new path is started and the
	// jobs that still have work are marked truncated (never "held")
	deadline time.Time
}

func (e *Explorer) push(items ...workItem) {
	if len(items) == 0 {
		return
	}
	e.mu.Lock()
	for _, it := range items {
		e.stacks[it.jr] = append(e.stacks[it.jr], it)
	}
	e.mu.Unlock()
	e.cond.Broadcast()
}

// pop takes work from the earliest job that has any (depth first inside a
// job), so jobs run essentially one after the other with all workers.
func (e *Explorer) pop() (workItem, bool) {
	e.mu.Lock()
	defer e.mu.Unlock()
	for {
		for e.first < len(e.order) && len(e.stacks[e.order[e.first]]) == 0 && e.order[e.first].inflight == 0 {
			e.first++
		}
		for i := e.first; i < len(e.order); i++ {
			st := e.stacks[e.order[i]]
			if len(st) > 0 {
				it := st[len(st)-1]
				e.stacks[e.order[i]] = st[:len(st)-1]
				e.active++
				it.jr.inflight++
				return it, true
			}
		}
		if e.active == 0 {
			return workItem{}, false
		}
		e.cond.Wait()
	}
}

func (e *Explorer) done(jr *JobResult) {
	e.mu.Lock()
	e.active--
	jr.inflight--
	e.mu.Unlock()
	e.cond.Broadcast()
}

func newMachine(prog *ssa.Program, timeout int) *Machine {
	m := &Machine{prog: prog, sol: NewSolver(timeout), ordered: map[*ssa.BasicBlock][]ssa.Instruction{}}
	m.setupIntrinsics()
	m.setupModels()
	return m
}

func (e *Explorer) worker(wg *sync.WaitGroup) {
	defer wg.Done()
	m := newMachine(e.prog, e.timeout)
	defer m.sol.Close()
	for {
		it, ok := e.pop()
		if !ok {
			return
		}
		e.runPath(m, it)
		e.done(it.jr)
	}
}

func (e *Explorer) runPath(m *Machine, it workItem) {
	jr := it.jr
	jr.mu.Lock()
	if jr.Truncated {
		jr.mu.Unlock()
		return
	}
	idx := jr.Paths
	if idx == 0 {
		jr.started = time.Now()
	}
	if jr.NViolations >= jr.job.Opt.MaxViolations {
		// enough counterexamples: stop exploring this job (not a truncation)
		jr.Stopped = true
		jr.mu.Unlock()
		return
	}
	jr.Paths++
	if (jr.job.Opt.MaxPaths > 0 && jr.Paths > jr.job.Opt.MaxPaths) ||
		(!e.deadline.IsZero() && time.Now().After(e.deadline)) ||
		(jr.job.Opt.MaxWallS > 0 && jr.busy > time.Duration(jr.job.Opt.MaxWallS)*time.Second*time.Duration(e.workers)) {
		jr.Truncated = true
		jr.Paths--
		jr.mu.Unlock()
		return
	}
	rec := len(jr.Transcripts) < e.record && idx < e.record
	dumpDir := os.Getenv("GOSYM_DUMP_UNKNOWN")
	if dumpDir != "" {
		rec = true
	}
	jr.mu.Unlock()
	pathStart := time.Now()

	opt := jr.job.Opt
	m.opt = &opt
	m.curJob = jr.Name
	m.pathIdx = idx
	m.prefix, m.taken, m.newAlts = it.prefix, nil, nil
	m.globals = map[*ssa.Global]*Val{}
	m.nsym, m.draws, m.notes, m.steps = 0, nil, nil, 0
	m.captured, m.blobs = nil, nil
	m.sideTab = map[*Val]interface{}{}
	m.released = map[*Val]string{}
	m.pathViol = nil
	m.reached = map[string]bool{}
	m.symOblig = 0
	m.frames = nil
	m.defs = map[string]string{}
	m.pcLog = nil
	m.misaligned = nil
	m.poolGets, m.zeroReads = 0, 0
	m.poolCap = -1
	m.concrete = nil
	m.obs = nil
	if it.concrete > 0 {
		m.concrete = rand.New(rand.NewSource(opt.ConcreteSeed*1000003 + int64(it.concrete)))
	}
	m.skipPhi, m.inArm = false, false
	m.Labels = map[string]*labelStat{}
	m.FuncsSeen = map[string]int{}
	m.Reordered = map[string]bool{}
	m.Obligs, m.Discharged, m.IfConv = 0, 0, 0
	q0, t0 := m.sol.Queries, m.sol.Time
	fb0 := m.sol.Fallbacks
	nerr := len(m.sol.Errors)
	m.sol.BeginPath(rec)

	stubs := map[string]bool{}
	for _, s := range opt.Stub {
		stubs[s] = true
	}
	for s := range stubs {
		m.intr[s] = func(m *Machine, a []Val) Val { return nil }
	}

	var unsupported string
	aborted := false
	func() {
		defer func() {
			if r := recover(); r != nil {
				switch x := r.(type) {
				case pathAbort:
					aborted = true
				case GoPanic:
					m.violate("panic", "panic", x.Msg)
				case Unsupported:
					unsupported = x.Msg
				default:
					// engine fault: never success — report as unsupported and
					// restart the solver (its scopes may be unbalanced)
					unsupported = fmt.Sprintf("engine error: %v @ %s", r, shortStack())
					m.sol.Close()
					m.sol = NewSolver(e.timeout)
					m.sol.BeginPath(false)
				}
			}
		}()
		for _, in := range jr.inits {
			m.callFn(in, nil, nil)
		}
		m.globalSlots = nil
		if opt.MonitorGlobals {
			m.registerGlobals()
		}
		args := make([]Val, len(jr.job.Args))
		for i, a := range jr.job.Args {
			args[i] = cInt(uint64(a), 64, true)
		}
		m.callFn(jr.fn, args, nil)
	}()
	for s := range stubs {
		delete(m.intr, s)
	}
	if dumpDir != "" {
		for _, a := range m.sol.Answers {
			if a == "unknown" {
				os.WriteFile(fmt.Sprintf("%s/%s-%d.smt2", dumpDir, sanitize(jr.Name), idx), []byte(strings.Join(m.sol.Script, "\n")), 0o644)
				break
			}
		}
		rec = len(jr.Transcripts) < e.record && idx < e.record
	}
	var tr Transcript
	if rec {
		tr = Transcript{Script: append([]string{}, m.sol.Script...), Answers: append([]string{}, m.sol.Answers...)}
	}
	m.sol.EndPath()

	// queue alternatives
	var items []workItem
	if it.concrete > 0 {
		m.newAlts = nil
	}
	for _, a := range m.newAlts {
		items = append(items, workItem{jr: jr, prefix: a})
	}
	e.push(items...)

	jr.mu.Lock()
	defer jr.mu.Unlock()
	if it.concrete > 0 {
		cr := ConcreteRun{Run: it.concrete, Draws: append([]Draw{}, m.draws...), Obs: m.obs, Aborted: aborted || unsupported != ""}
		for _, v := range m.pathViol {
			if v.Kind == "panic" {
				cr.Panic = v.Msg
			}
			cr.Failed = append(cr.Failed, v.Label)
		}
		jr.Concrete = append(jr.Concrete, cr)
		jr.Paths-- // differential runs are not paths of the symbolic exploration
		jr.busy += time.Since(pathStart)
		return
	}
	jr.busy += time.Since(pathStart)
	jr.Steps += m.steps
	jr.Obligs += m.Obligs
	jr.Discharged += m.Discharged
	jr.IfConv += m.IfConv
	jr.Queries += m.sol.Queries - q0
	jr.Fallbacks += m.sol.Fallbacks - fb0
	jr.SolverTime += (m.sol.Time - t0).Seconds()
	if aborted && len(m.pathViol) == 0 {
		jr.Aborted++
	}
	if m.symOblig > 0 {
		jr.NontrivPaths++
	}
	for l, s := range m.Labels {
		d, ok := jr.Labels[l]
		if !ok {
			d = &labelStat{}
			jr.Labels[l] = d
		}
		d.Evaluated += s.Evaluated
		d.Discharged += s.Discharged
		d.Symbolic += s.Symbolic
	}
	for f, c := range m.FuncsSeen {
		jr.Funcs[f] += c
	}
	for r := range m.reached {
		jr.Reach[r]++
	}
	for r := range m.Reordered {
		found := false
		for _, x := range jr.Reordered {
			if x == r {
				found = true
			}
		}
		if !found {
			jr.Reordered = append(jr.Reordered, r)
		}
	}
	if unsupported != "" {
		jr.Unsupported[unsupported]++
	}
	for _, e := range m.sol.Errors[nerr:] {
		if len(jr.SolverErrors) < 10 {
			jr.SolverErrors = append(jr.SolverErrors, e)
		}
	}
	jr.NViolations += len(m.pathViol)
	for _, v := range m.pathViol {
		if len(jr.Violations) < 200 {
			jr.Violations = append(jr.Violations, v)
		}
	}
	for _, n := range m.notes {
		if len(jr.noteSet) < 20000 && !jr.noteSet[n] {
			jr.noteSet[n] = true
			jr.DistinctNotes++
		}
	}
	if len(jr.Samples) < 3 || (m.symOblig > 0 && len(jr.Samples) < 6) {
		jr.Samples = append(jr.Samples, Sample{Path: idx, Prefix: append([]int{}, m.taken...), Notes: append([]string{}, m.notes...), NDraws: len(m.draws), Oblig: m.symOblig})
	}
	if rec {
		jr.Transcripts = append(jr.Transcripts, tr)
	}
	jr.Wall = time.Since(jr.started).Seconds()
	jr.CPU = jr.busy.Seconds()
}

func runJobs(prog *ssa.Program, pkgs map[string]*ssa.Package, jobs []Job, workers, timeout, record, deadlineS int) ([]*JobResult, error) {
	e := &Explorer{prog: prog, timeout: timeout, record: record, workers: workers}
	if deadlineS > 0 {
		e.deadline = time.Now().Add(time.Duration(deadlineS) * time.Second)
	}
	e.cond = sync.NewCond(&e.mu)
	var results []*JobResult
	for i := range jobs {
		j := &jobs[i]
		p := pkgs[j.Pkg]
		if p == nil {
			return nil, fmt.Errorf("job %s: package %s not loaded", j.Name, j.Pkg)
		}
		fn := p.Func(j.Func)
		if fn == nil {
			return nil, fmt.Errorf("job %s: no function %s in %s", j.Name, j.Func, j.Pkg)
		}
		if j.Opt.MaxSteps == 0 {
			j.Opt.MaxSteps = 5_000_000
		}
		if j.Opt.MaxPaths == 0 {
			j.Opt.MaxPaths = 400_000
		}
		if j.Opt.MaxWallS == 0 {
			j.Opt.MaxWallS = 600
		}
		if j.Opt.MaxViolations == 0 {
			j.Opt.MaxViolations = 12
		}
		if j.Opt.MaxAlloc == 0 {
			j.Opt.MaxAlloc = 1 << 16
		}
		if len(j.Opt.InitPrefixes) == 0 {
			j.Opt.InitPrefixes = []string{"github.com/parsyl/parquet", "scratch"}
			j.Opt.InitExclude = []string{"github.com/parsyl/parquet/schema"}
		}
		jr := &JobResult{Name: j.Name, Pkg: j.Pkg, Func: j.Func, Args: j.Args, job: j, fn: fn,
			noteSet: map[string]bool{}, Labels: map[string]*labelStat{}, Unsupported: map[string]int{}, Funcs: map[string]int{}, Reach: map[string]int{}, started: time.Now()}
		if in := p.Func("init"); in != nil {
			jr.inits = append(jr.inits, in)
		}
		results = append(results, jr)
	}
	e.stacks = map[*JobResult][]workItem{}
	for _, jr := range results {
		e.order = append(e.order, jr)
		if jr.job.Opt.ConcreteRuns > 0 {
			for i := jr.job.Opt.ConcreteRuns; i >= 1; i-- {
				e.stacks[jr] = append(e.stacks[jr], workItem{jr: jr, concrete: i})
			}
			continue
		}
		e.stacks[jr] = []workItem{{jr: jr}}
	}
	var wg sync.WaitGroup
	for w := 0; w < workers; w++ {
		wg.Add(1)
		go e.worker(&wg)
	}
	wg.Wait()
	for _, jr := range results {
		sort.Strings(jr.Reordered)
	}
	return results, nil
}

func shortStack() string {
	st := string(debug.Stack())
	lines := strings.Split(st, "\n")
	var keep []string
	for _, l := range lines {
		if strings.Contains(l, "/engine/") && !strings.Contains(l, "explore.go") {
			keep = append(keep, strings.TrimSpace(l))
			if len(keep) >= 3 {
				break
			}
		}
	}
	return strings.Join(keep, " | ")
}
