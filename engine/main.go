package main

import (
	"bufio"
	"encoding/json"
	"fmt"
	"os"
	"os/exec"
	"path/filepath"
	"runtime/debug"
	"runtime/pprof"
	"strings"
	"time"

	"golang.org/x/tools/go/packages"
	"golang.org/x/tools/go/ssa"
	"golang.org/x/tools/go/ssa/ssautil"
)

// Spec is the input of one engine run.
type Spec struct {
	Dir            string            `json:"dir"`
	Patterns       []string          `json:"patterns"`
	Overlay        map[string]string `json:"overlay"`
	Jobs           []Job             `json:"jobs"`
	Workers        int               `json:"workers"`
	QueryTimeoutMs int               `json:"query_timeout_ms"`
	DeadlineS      int               `json:"deadline_s"`
	Record         int               `json:"record"`
	TranscriptDir  string            `json:"transcript_dir"`
	Out            string            `json:"out"`
}

type Output struct {
	LoadS      float64             `json:"load_s"`
	ExploreS   float64             `json:"explore_s"`
	LoadErrors map[string][]string `json:"load_errors"`
	Jobs       []*JobResult        `json:"jobs"`
	Skipped    map[string]string   `json:"skipped"`
	Error      string              `json:"error,omitempty"`
}

func main() {
	if len(os.Args) >= 2 && os.Args[1] == "xcheck" {
		os.Exit(xcheck(os.Args[2:]))
	}
	if len(os.Args) != 2 {
		fmt.Fprintln(os.Stderr, "usage: gosym spec.json | gosym xcheck <solver-cmd> transcript.json...")
		os.Exit(2)
	}
	if pf := os.Getenv("GOSYM_PROF"); pf != "" {
		f, _ := os.Create(pf)
		pprof.StartCPUProfile(f)
		defer pprof.StopCPUProfile()
	}
	raw, err := os.ReadFile(os.Args[1])
	if err != nil {
		fatal(err)
	}
	var spec Spec
	if err := json.Unmarshal(raw, &spec); err != nil {
		fatal(err)
	}
	if spec.Workers <= 0 {
		spec.Workers = 16
	}
	if spec.QueryTimeoutMs <= 0 {
		spec.QueryTimeoutMs = 60000
	}
	out := &Output{LoadErrors: map[string][]string{}, Skipped: map[string]string{}}
	t0 := time.Now()
	overlay := map[string][]byte{}
	for virt, real := range spec.Overlay {
		src, err := os.ReadFile(real)
		if err != nil {
			fatal(err)
		}
		overlay[virt] = src
	}
	cfg := &packages.Config{Mode: packages.LoadAllSyntax, Dir: spec.Dir, Overlay: overlay,
		Env: append(os.Environ(), "GOFLAGS=-mod=mod", "GOPROXY=off", "GOSUMDB=off", "GOTOOLCHAIN=local")}
	pkgs, err := packages.Load(cfg, spec.Patterns...)
	if err != nil {
		fatal(err)
	}
	bad := map[string]bool{}
	packages.Visit(pkgs, nil, func(p *packages.Package) {
		for _, e := range p.Errors {
			out.LoadErrors[p.PkgPath] = append(out.LoadErrors[p.PkgPath], e.Error())
			bad[p.PkgPath] = true
		}
	})
	prog, spkgs := ssautil.AllPackages(pkgs, ssa.InstantiateGenerics)
	prog.Build()
	byPath := map[string]*ssa.Package{}
	for i, p := range pkgs {
		if spkgs[i] != nil && !bad[p.PkgPath] {
			byPath[p.PkgPath] = spkgs[i]
		}
	}
	out.LoadS = time.Since(t0).Seconds()
	var jobs []Job
	for _, j := range spec.Jobs {
		if _, ok := byPath[j.Pkg]; !ok {
			out.Skipped[j.Name] = "package did not load: " + j.Pkg
			continue
		}
		jobs = append(jobs, j)
	}
	t1 := time.Now()
	res, err := runJobs(prog, byPath, jobs, spec.Workers, spec.QueryTimeoutMs, spec.Record, spec.DeadlineS)
	if err != nil {
		out.Error = err.Error()
	}
	out.ExploreS = time.Since(t1).Seconds()
	out.Jobs = res
	if spec.TranscriptDir != "" {
		os.MkdirAll(spec.TranscriptDir, 0o755)
		for _, jr := range res {
			for i, tr := range jr.Transcripts {
				b, _ := json.Marshal(tr)
				os.WriteFile(filepath.Join(spec.TranscriptDir, fmt.Sprintf("%s-%d.json", sanitize(jr.Name), i)), b, 0o644)
			}
		}
	}
	b, _ := json.MarshalIndent(out, "", " ")
	if spec.Out != "" {
		if err := os.WriteFile(spec.Out, b, 0o644); err != nil {
			fatal(err)
		}
	} else {
		os.Stdout.Write(b)
	}
}

func sanitize(s string) string {
	return strings.Map(func(r rune) rune {
		if r >= 'a' && r <= 'z' || r >= 'A' && r <= 'Z' || r >= '0' && r <= '9' || r == '-' || r == '_' {
			return r
		}
		return '_'
	}, s)
}

func fatal(err error) {
	fmt.Fprintln(os.Stderr, "gosym:", err)
	debug.PrintStack()
	os.Exit(3)
}

// xcheck replays recorded solver transcripts on another solver and compares
// every check-sat answer.  usage: gosym xcheck "<solver cmd>" files...
// Prints one JSON line: {"queries":N,"agree":N,"disagree":N,"unknown":N}
func xcheck(args []string) int {
	if len(args) < 2 {
		return 2
	}
	cmdline := strings.Fields(args[0])
	total, agree, disagree, unknown := 0, 0, 0, 0
	var details []string
	for _, f := range args[1:] {
		raw, err := os.ReadFile(f)
		if err != nil {
			continue
		}
		var tr Transcript
		if json.Unmarshal(raw, &tr) != nil {
			continue
		}
		cmd := exec.Command(cmdline[0], cmdline[1:]...)
		in, _ := cmd.StdinPipe()
		outp, _ := cmd.StdoutPipe()
		cmd.Stderr = cmd.Stdout
		if err := cmd.Start(); err != nil {
			fmt.Println(`{"error":"cannot start solver"}`)
			return 2
		}
		w := bufio.NewWriter(in)
		rd := bufio.NewReader(outp)
		ai := 0
		for _, line := range tr.Script {
			fmt.Fprintln(w, line)
			if line == "(check-sat)" {
				fmt.Fprintln(w, `(echo "##sync")`)
				w.Flush()
				ans := "unknown"
				for {
					l, err := rd.ReadString('\n')
					if err != nil {
						break
					}
					l = strings.TrimSpace(l)
					if l == "##sync" || l == `"##sync"` {
						break
					}
					if l == "sat" || l == "unsat" || l == "unknown" {
						ans = l
					}
					if strings.HasPrefix(l, "(error") {
						ans = "error"
					}
				}
				total++
				want := "?"
				if ai < len(tr.Answers) {
					want = tr.Answers[ai]
				}
				ai++
				switch {
				case ans == want:
					agree++
				case ans == "unknown" || ans == "error" || want == "unknown":
					unknown++
				default:
					disagree++
					details = append(details, fmt.Sprintf("%s query %d: z3=%s other=%s", filepath.Base(f), ai-1, want, ans))
				}
			}
		}
		w.Flush()
		in.Close()
		cmd.Wait()
	}
	b, _ := json.Marshal(map[string]interface{}{"queries": total, "agree": agree, "disagree": disagree, "unknown": unknown, "details": details})
	fmt.Println(string(b))
	if disagree > 0 {
		return 1
	}
	return 0
}
