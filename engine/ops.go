package main

import (
	"fmt"
	"go/token"
	"go/types"
	"math"
)

func cmpOp(op token.Token, signed bool) string {
	switch op {
	case token.LSS:
		if signed {
			return "bvslt"
		}
		return "bvult"
	case token.LEQ:
		if signed {
			return "bvsle"
		}
		return "bvule"
	case token.GTR:
		if signed {
			return "bvsgt"
		}
		return "bvugt"
	case token.GEQ:
		if signed {
			return "bvsge"
		}
		return "bvuge"
	}
	return ""
}

func (m *Machine) fp(f Float) *Term {
	if f.Bits == 32 {
		return m.app(-32, "(_ to_fp 8 24)", f.BV())
	}
	return m.app(-64, "(_ to_fp 11 53)", f.BV())
}

func (m *Machine) binop(op token.Token, x, y Val) Val {
	switch a := x.(type) {
	case Int:
		b := y.(Int)
		if op == token.SHL || op == token.SHR {
			return m.shift(op, a, b)
		}
		if a.T == nil && b.T == nil {
			return intConcrete(op, a, b)
		}
		at, bt := a.Term(), b.Term()
		r := func(o string) Val { return Int{Bits: a.Bits, Signed: a.Signed, T: m.app(a.Bits, o, at, bt)} }
		switch op {
		case token.ADD:
			if b.T == nil && b.C == 0 {
				return Int{Bits: a.Bits, Signed: a.Signed, T: a.T}
			}
			if a.T == nil && a.C == 0 {
				return Int{Bits: a.Bits, Signed: a.Signed, T: b.T}
			}
			return r("bvadd")
		case token.SUB:
			if b.T == nil && b.C == 0 {
				return Int{Bits: a.Bits, Signed: a.Signed, T: a.T}
			}
			return r("bvsub")
		case token.MUL:
			return r("bvmul")
		case token.AND:
			return r("bvand")
		case token.OR:
			if b.T == nil && b.C == 0 {
				return Int{Bits: a.Bits, Signed: a.Signed, T: a.T}
			}
			if a.T == nil && a.C == 0 {
				return Int{Bits: a.Bits, Signed: a.Signed, T: b.T}
			}
			return r("bvor")
		case token.XOR:
			return r("bvxor")
		case token.AND_NOT:
			return Int{Bits: a.Bits, Signed: a.Signed, T: m.app(a.Bits, "bvand", at, m.app(a.Bits, "bvnot", bt))}
		case token.QUO, token.REM:
			if b.T != nil {
				if m.decide(m.tEq(bt, bvConst(0, b.Bits))) {
					panic(GoPanic{"integer divide by zero"})
				}
			} else if b.C == 0 {
				panic(GoPanic{"integer divide by zero"})
			}
			o := "bvudiv"
			if op == token.REM {
				o = "bvurem"
			}
			if a.Signed {
				o = "bvsdiv"
				if op == token.REM {
					o = "bvsrem"
				}
			}
			return r(o)
		case token.EQL:
			return mkBool(m.tEq(at, bt))
		case token.NEQ:
			return mkBool(m.tNot(m.tEq(at, bt)))
		case token.LSS, token.LEQ, token.GTR, token.GEQ:
			return Bool{T: m.app(0, cmpOp(op, a.Signed), at, bt)}
		}
		panic(Unsupported{"symbolic int op " + op.String()})
	case Float:
		b := y.(Float)
		if a.T == nil && b.T == nil {
			var x, yv float64
			if a.Bits == 32 {
				x, yv = float64(math.Float32frombits(uint32(a.C))), float64(math.Float32frombits(uint32(b.C)))
			} else {
				x, yv = math.Float64frombits(a.C), math.Float64frombits(b.C)
			}
			switch op {
			case token.LSS:
				return Bool{C: x < yv}
			case token.LEQ:
				return Bool{C: x <= yv}
			case token.GTR:
				return Bool{C: x > yv}
			case token.GEQ:
				return Bool{C: x >= yv}
			case token.EQL:
				return Bool{C: x == yv}
			case token.NEQ:
				return Bool{C: x != yv}
			}
			panic(Unsupported{"float arithmetic " + op.String()})
		}
		// IEEE comparisons encoded over the bit patterns (pure bit-vector
		// terms; proved equivalent to fp.lt/fp.leq/fp.eq of the FloatingPoint
		// theory by the lemma the checks run, see lib/fplemma.py)
		switch op {
		case token.LSS:
			return mkBool(m.fpLess(a, b, false))
		case token.LEQ:
			return mkBool(m.fpLess(a, b, true))
		case token.GTR:
			return mkBool(m.fpLess(b, a, false))
		case token.GEQ:
			return mkBool(m.fpLess(b, a, true))
		case token.EQL:
			return mkBool(m.fpEq(a, b))
		case token.NEQ:
			return mkBool(m.tNot(m.fpEq(a, b)))
		}
		panic(Unsupported{"float arithmetic " + op.String()})
	case Bool:
		b := y.(Bool)
		switch op {
		case token.EQL:
			if a.T == nil && b.T == nil {
				return Bool{C: a.C == b.C}
			}
			return mkBool(m.tEq(a.Term(), b.Term()))
		case token.NEQ:
			if a.T == nil && b.T == nil {
				return Bool{C: a.C != b.C}
			}
			return mkBool(m.tNot(m.tEq(a.Term(), b.Term())))
		case token.AND, token.LAND:
			return mkBool(m.tAnd(a.Term(), b.Term()))
		case token.OR, token.LOR:
			return mkBool(m.tOr(a.Term(), b.Term()))
		}
	case Str:
		b := y.(Str)
		if !a.Sym && !b.Sym {
			switch op {
			case token.ADD:
				return Str{C: a.C + b.C}
			case token.EQL:
				return Bool{C: a.C == b.C}
			case token.NEQ:
				return Bool{C: a.C != b.C}
			case token.LSS:
				return Bool{C: a.C < b.C}
			case token.GTR:
				return Bool{C: a.C > b.C}
			case token.LEQ:
				return Bool{C: a.C <= b.C}
			case token.GEQ:
				return Bool{C: a.C >= b.C}
			}
		}
		switch op {
		case token.ADD:
			return mkStr(append(append([]Int{}, strBytes(a)...), strBytes(b)...))
		case token.LSS, token.GTR, token.LEQ, token.GEQ:
			ab, bb := strBytes(a), strBytes(b)
			if op == token.GTR || op == token.LEQ {
				ab, bb = bb, ab
			}
			// lt(ab, bb) lexicographic, bytewise unsigned
			lt := m.strLess(ab, bb)
			if op == token.LEQ || op == token.GEQ {
				return mkBool(m.tNot(lt))
			}
			return mkBool(lt)
		case token.EQL, token.NEQ:
			r := mkBool(m.strEq(strBytes(a), strBytes(b)))
			if op == token.NEQ {
				if r.T == nil {
					return Bool{C: !r.C}
				}
				return mkBool(m.tNot(r.T))
			}
			return r
		}
		panic(Unsupported{"symbolic string op " + op.String()})
	case Ptr:
		b, _ := y.(Ptr)
		switch op {
		case token.EQL:
			return Bool{C: a.P == b.P}
		case token.NEQ:
			return Bool{C: a.P != b.P}
		}
	case Iface:
		b := y.(Iface)
		eq := false
		switch {
		case a.T == nil || b.T == nil:
			eq = a.T == nil && b.T == nil
		case !types.Identical(a.T, b.T):
			eq = false
		default:
			switch av := a.V.(type) {
			case Ptr:
				bv, _ := b.V.(Ptr)
				eq = av.P == bv.P
			case Int:
				bv := b.V.(Int)
				if av.T != nil || bv.T != nil {
					r := mkBool(m.tEq(av.Term(), bv.Term()))
					if op == token.NEQ {
						return mkBool(m.tNot(r.Term()))
					}
					return r
				}
				eq = av.C == bv.C
			case Str:
				return m.binop(op, av, b.V)
			case Struct:
				if len(av) == 0 {
					eq = true
				} else {
					panic(Unsupported{"interface comparison of structs"})
				}
			default:
				panic(Unsupported{fmt.Sprintf("interface comparison of %T", a.V)})
			}
		}
		if op == token.EQL {
			return Bool{C: eq}
		}
		return Bool{C: !eq}
	case Slice:
		isNil := a.Nil
		if op == token.EQL {
			return Bool{C: isNil}
		}
		return Bool{C: !isNil}
	case Map:
		if op == token.EQL {
			return Bool{C: a.Nil}
		}
		return Bool{C: !a.Nil}
	case Func:
		if op == token.EQL {
			return Bool{C: a.Nil}
		}
		return Bool{C: !a.Nil}
	case nil:
		if y == nil {
			return Bool{C: op == token.EQL}
		}
		return m.binop(op, y, x)
	}
	panic(Unsupported{fmt.Sprintf("binop %s on %T", op, x)})
}

func (m *Machine) strLess(ab, bb []Int) *Term {
	n := len(ab)
	if len(bb) < n {
		n = len(bb)
	}
	lt := boolConst(len(ab) < len(bb))
	for i := n - 1; i >= 0; i-- {
		x, y := ab[i], bb[i]
		if x.T == nil && y.T == nil {
			if x.C < y.C {
				lt = termTrue
			} else if x.C > y.C {
				lt = termFalse
			}
			continue
		}
		xt, yt := x.Term(), y.Term()
		lt = m.tOr(m.app(0, "bvult", xt, yt), m.tAnd(m.tEq(xt, yt), lt))
	}
	return lt
}

func (m *Machine) strEq(ab, bb []Int) *Term {
	if len(ab) != len(bb) {
		return termFalse
	}
	t := termTrue
	for i := range ab {
		if ab[i].T == nil && bb[i].T == nil {
			if ab[i].C != bb[i].C {
				return termFalse
			}
			continue
		}
		t = m.tAnd(t, m.tEq(ab[i].Term(), bb[i].Term()))
	}
	return t
}

func intConcrete(op token.Token, a, b Int) Val {
	r := func(v uint64) Val { return cInt(v, a.Bits, a.Signed) }
	switch op {
	case token.ADD:
		return r(a.C + b.C)
	case token.SUB:
		return r(a.C - b.C)
	case token.MUL:
		return r(a.C * b.C)
	case token.QUO:
		if b.C == 0 {
			panic(GoPanic{"integer divide by zero"})
		}
		if a.Signed {
			return r(uint64(a.SignedVal() / b.SignedVal()))
		}
		return r(a.C / b.C)
	case token.REM:
		if b.C == 0 {
			panic(GoPanic{"integer divide by zero"})
		}
		if a.Signed {
			return r(uint64(a.SignedVal() % b.SignedVal()))
		}
		return r(a.C % b.C)
	case token.AND:
		return r(a.C & b.C)
	case token.OR:
		return r(a.C | b.C)
	case token.XOR:
		return r(a.C ^ b.C)
	case token.AND_NOT:
		return r(a.C &^ b.C)
	case token.EQL:
		return Bool{C: a.C == b.C}
	case token.NEQ:
		return Bool{C: a.C != b.C}
	}
	if a.Signed {
		x, y := a.SignedVal(), b.SignedVal()
		switch op {
		case token.LSS:
			return Bool{C: x < y}
		case token.LEQ:
			return Bool{C: x <= y}
		case token.GTR:
			return Bool{C: x > y}
		case token.GEQ:
			return Bool{C: x >= y}
		}
	} else {
		switch op {
		case token.LSS:
			return Bool{C: a.C < b.C}
		case token.LEQ:
			return Bool{C: a.C <= b.C}
		case token.GTR:
			return Bool{C: a.C > b.C}
		case token.GEQ:
			return Bool{C: a.C >= b.C}
		}
	}
	panic(Unsupported{"int op " + op.String()})
}

func (m *Machine) shift(op token.Token, a, b Int) Val {
	if b.T == nil {
		n := b.C
		if b.Signed && b.SignedVal() < 0 {
			panic(GoPanic{"negative shift amount"})
		}
		if a.T == nil {
			if op == token.SHL {
				if n >= 64 {
					return cInt(0, a.Bits, a.Signed)
				}
				return cInt(a.C<<n, a.Bits, a.Signed)
			}
			if a.Signed {
				if n >= 64 {
					n = 63
				}
				return cInt(uint64(a.SignedVal()>>n), a.Bits, true)
			}
			if n >= 64 {
				return cInt(0, a.Bits, false)
			}
			return cInt(a.C>>n, a.Bits, false)
		}
		if n == 0 {
			return a
		}
		if n >= uint64(a.Bits) {
			if op == token.SHR && a.Signed {
				n = uint64(a.Bits - 1)
			} else {
				return cInt(0, a.Bits, a.Signed)
			}
		}
		cnt := bvConst(n, a.Bits)
		o := "bvshl"
		if op == token.SHR {
			o = "bvlshr"
			if a.Signed {
				o = "bvashr"
			}
		}
		return Int{Bits: a.Bits, Signed: a.Signed, T: m.app(a.Bits, o, a.T, cnt)}
	}
	// symbolic count: widen/narrow the count to a's width, saturate
	if b.Signed {
		if m.decide(m.app(0, "bvslt", b.T, bvConst(0, b.Bits))) {
			panic(GoPanic{"negative shift amount"})
		}
	}
	var cnt *Term
	switch {
	case b.Bits == a.Bits:
		cnt = b.T
	case b.Bits < a.Bits:
		cnt = m.app(a.Bits, fmt.Sprintf("(_ zero_extend %d)", a.Bits-b.Bits), b.T)
	default:
		// saturate: if any high bit set, count = width
		hi := m.app(b.Bits-a.Bits, fmt.Sprintf("(_ extract %d %d)", b.Bits-1, a.Bits), b.T)
		lo := m.app(a.Bits, fmt.Sprintf("(_ extract %d 0)", a.Bits-1), b.T)
		cnt = m.tIte(m.tEq(hi, bvConst(0, b.Bits-a.Bits)), lo, bvConst(uint64(a.Bits), a.Bits))
	}
	o := "bvshl"
	if op == token.SHR {
		o = "bvlshr"
		if a.Signed {
			o = "bvashr"
		}
	}
	// SMT-LIB shifts already saturate (shl/lshr give 0, ashr gives sign) for counts ≥ width
	return Int{Bits: a.Bits, Signed: a.Signed, T: m.app(a.Bits, o, a.Term(), cnt)}
}

func (m *Machine) fpParts(f Float) (nan, zero, key *Term) {
	x := f.BV()
	n := f.Bits
	var eb int
	if n == 32 {
		eb = 8
	} else {
		eb = 11
	}
	mb := n - 1 - eb
	exp := m.app(eb, fmt.Sprintf("(_ extract %d %d)", n-2, mb), x)
	man := m.app(mb, fmt.Sprintf("(_ extract %d 0)", mb-1), x)
	nan = m.tAnd(m.tEq(exp, bvConst(^uint64(0), eb)), m.tNot(m.tEq(man, bvConst(0, mb))))
	zero = m.tEq(m.app(n-1, fmt.Sprintf("(_ extract %d 0)", n-2), x), bvConst(0, n-1))
	sign := m.tEq(m.app(1, fmt.Sprintf("(_ extract %d %d)", n-1, n-1), x), bvConst(1, 1))
	key = m.tIte(sign, m.app(n, "bvnot", x), m.app(n, "bvor", x, bvConst(uint64(1)<<uint(n-1), n)))
	return
}

// fpLess: a < b (orEq: a <= b) under IEEE semantics.
func (m *Machine) fpLess(a, b Float, orEq bool) *Term {
	na, za, ka := m.fpParts(a)
	nb, zb, kb := m.fpParts(b)
	notNaN := m.tAnd(m.tNot(na), m.tNot(nb))
	bothZero := m.tAnd(za, zb)
	if orEq {
		return m.tAnd(notNaN, m.tOr(bothZero, m.app(0, "bvule", ka, kb)))
	}
	return m.tAnd(notNaN, m.tAnd(m.tNot(bothZero), m.app(0, "bvult", ka, kb)))
}

func (m *Machine) fpEq(a, b Float) *Term {
	na, za, _ := m.fpParts(a)
	nb, zb, _ := m.fpParts(b)
	return m.tAnd(m.tAnd(m.tNot(na), m.tNot(nb)), m.tOr(m.tAnd(za, zb), m.tEq(a.BV(), b.BV())))
}
