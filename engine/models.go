package main

import (
	"fmt"
	"go/types"
	"strings"
)

// Models of standard-library and third-party callees that cannot be run
// from source (reflection, unsafe, recover, sync) or that are outside the
// code under test (thrift, snappy, gzip, the buffer pool).  Every entry is
// part of the claim and is listed in evidence under "stubs".

const thriftPkg = "github.com/apache/thrift/lib/go/thrift"
const schPkg = "github.com/parsyl/parquet/schema"
const poolPkg = "github.com/valyala/bytebufferpool"

func bufField(p Val) *Val { // *bytes.Buffer -> &buf
	pp := p.(Ptr)
	if pp.P == nil {
		panic(GoPanic{"nil *bytes.Buffer"})
	}
	s := (*pp.P).(Struct)
	return &s[0]
}

func (m *Machine) intBytesLE(i Int) []Val {
	n := i.Bits / 8
	out := make([]Val, n)
	for k := 0; k < n; k++ {
		if i.T == nil {
			out[k] = cInt(i.C>>(8*uint(k)), 8, false)
		} else {
			out[k] = Int{Bits: 8, T: m.app(8, fmt.Sprintf("(_ extract %d %d)", 8*k+7, 8*k), i.T)}
		}
	}
	return out
}

func (m *Machine) leInt(bs []Val, bits int, signed bool) Int {
	allC := true
	for _, b := range bs {
		if b.(Int).T != nil {
			allC = false
		}
	}
	if allC {
		var v uint64
		for i, b := range bs {
			v |= b.(Int).C << (8 * uint(i))
		}
		return cInt(v, bits, signed)
	}
	t := bs[len(bs)-1].(Int).Term()
	for i := len(bs) - 2; i >= 0; i-- {
		t = m.app(t.Sort+8, "concat", t, bs[i].(Int).Term())
	}
	return Int{Bits: bits, Signed: signed, T: t}
}

func nilErr() Val { return Iface{} }

func isErr(v Val) bool { return v.(Iface).T != nil }

// readFull reads exactly n bytes through r.Read with io.ReadFull semantics.
func (m *Machine) readFull(r Iface, n int) ([]Val, Val) {
	buf := make([]Val, n)
	for i := range buf {
		buf[i] = cInt(0, 8, false)
	}
	got := 0
	for got < n {
		res := m.callMethod(r, "Read", Slice{V: buf[got:]}).(Tuple)
		k := m.concretize(res[0].(Int), "Read count")
		if k < 0 || k > n-got {
			panic(GoPanic{"Read returned an invalid count"})
		}
		got += k
		if isErr(res[1]) {
			if got == n {
				break
			}
			if got > 0 && m.isEOF(res[1]) {
				return buf, m.errUnexpectedEOF()
			}
			return buf, res[1]
		}
		if k == 0 {
			m.zeroReads++
			if m.zeroReads > 100 {
				panic(Unsupported{"Read keeps returning 0, nil"})
			}
		}
	}
	return buf, nilErr()
}

func (m *Machine) ioErr(name string) Val {
	g := m.prog.ImportedPackage("io").Var(name)
	return copyVal(*m.global(g))
}

func (m *Machine) eof() Val              { return m.ioErr("EOF") }
func (m *Machine) errUnexpectedEOF() Val { return m.ioErr("ErrUnexpectedEOF") }

func (m *Machine) isEOF(e Val) bool {
	a, b := e.(Iface), m.eof().(Iface)
	if a.T == nil {
		return false
	}
	pa, ok1 := a.V.(Ptr)
	pb, ok2 := b.V.(Ptr)
	return ok1 && ok2 && pa.P == pb.P
}

func (m *Machine) newNamed(pkg, name string) Ptr {
	p := m.prog.ImportedPackage(pkg)
	if p == nil {
		panic(Unsupported{"package not loaded: " + pkg})
	}
	t := p.Type(name)
	if t == nil {
		panic(Unsupported{"type not found: " + pkg + "." + name})
	}
	v := new(Val)
	*v = zero(t.Type())
	return Ptr{v}
}

func (m *Machine) namedType(pkg, name string) types.Type {
	return m.prog.ImportedPackage(pkg).Type(name).Type()
}

func fieldIndex(t types.Type, name string) int {
	st := t.Underlying().(*types.Struct)
	for i := 0; i < st.NumFields(); i++ {
		if st.Field(i).Name() == name {
			return i
		}
	}
	panic(Unsupported{"no field " + name})
}

// newBlob registers an opaque segment.
func (m *Machine) newBlob(kind string, cap int, src []Val, n int) int {
	m.blobs = append(m.blobs, &blobInfo{kind: kind, cap: cap, src: src, n: n})
	return len(m.blobs) - 1
}

// blobBytes is the mode-A representation: n zero bytes tagged (blob, offset).
func blobBytes(id, n int) []Val {
	out := make([]Val, n)
	for i := range out {
		out[i] = Int{Bits: 8, BID: int32(id + 1), BOff: int32(i)}
	}
	return out
}

// wholeBlob reports whether bs is exactly the bytes of one blob, in order.
func (m *Machine) wholeBlob(bs []Val) (int, bool) {
	if len(bs) == 0 {
		return 0, false
	}
	first, ok := bs[0].(Int)
	if !ok || first.BID == 0 || first.BOff != 0 {
		return 0, false
	}
	id := int(first.BID - 1)
	if id >= len(m.blobs) || m.blobs[id].n != len(bs) {
		return 0, false
	}
	for i, b := range bs {
		x, ok := b.(Int)
		if !ok || x.BID != first.BID || int(x.BOff) != i {
			return 0, false
		}
	}
	return id, true
}

func (m *Machine) symLen(lo, hi uint64, hint string) Int {
	t := m.fresh(64, hint)
	m.draws = append(m.draws, Draw{Kind: "len", Name: t.S, Bits: 64})
	m.assume(m.app(0, "bvsge", t, bvConst(lo, 64)))
	m.assume(m.app(0, "bvsle", t, bvConst(hi, 64)))
	return Int{Bits: 64, Signed: true, T: t}
}

func (m *Machine) setupModels() {
	reg := func(name string, f Intrinsic) { m.intr[name] = f }

	// ---- sync: one goroutine executes, so locks are no-ops; sync.Map is a
	// keyed table attached to the receiver (its real source needs
	// sync/atomic and unsafe.Pointer).  Keys must be concrete.
	nop := func(m *Machine, a []Val) Val { return nil }
	for _, n := range []string{"(*sync.Mutex).Lock", "(*sync.Mutex).Unlock", "(*sync.RWMutex).Lock", "(*sync.RWMutex).Unlock", "(*sync.RWMutex).RLock", "(*sync.RWMutex).RUnlock"} {
		reg(n, nop)
	}
	type syncMap struct {
		keys []interface{}
		vals map[interface{}]Val
		kv   map[interface{}]Val
	}
	smap := func(m *Machine, recv Val) *syncMap {
		p := recv.(Ptr).P
		if st, ok := m.sideTab[p].(*syncMap); ok {
			return st
		}
		st := &syncMap{vals: map[interface{}]Val{}, kv: map[interface{}]Val{}}
		m.sideTab[p] = st
		return st
	}
	skey := func(v Val) interface{} {
		if i, ok := v.(Iface); ok {
			if i.T == nil {
				return nil
			}
			return [2]interface{}{i.T.String(), mapKey(i.V)}
		}
		return mapKey(v)
	}
	// sync.Pool: a LIFO free list attached to the receiver (one goroutine, no GC): Put followed by Get hands the
	// same object back, which is what lets reuse bugs show
	type syncPool struct{ free []Val }
	spool := func(m *Machine, recv Val) *syncPool {
		p := recv.(Ptr).P
		if st, ok := m.sideTab[p].(*syncPool); ok {
			return st
		}
		st := &syncPool{}
		m.sideTab[p] = st
		return st
	}
	reg("(*sync.Pool).Get", func(m *Machine, a []Val) Val {
		st := spool(m, a[0])
		if n := len(st.free); n > 0 {
			v := st.free[n-1]
			st.free = st.free[:n-1]
			return v
		}
		pst := (*a[0].(Ptr).P).(Struct)
		if f, ok := pst[fieldIndex(m.namedType("sync", "Pool"), "New")].(Func); ok && !f.Nil && f.Fn != nil {
			return m.callFn(f.Fn, nil, f.Env)
		}
		return Iface{}
	})
	reg("(*sync.Pool).Put", func(m *Machine, a []Val) Val {
		st := spool(m, a[0])
		st.free = append(st.free, a[1]) // a pool is shared state by design (A5); what matters is what comes back out of it
		return nil
	})
	reg("(*sync.Map).Load", func(m *Machine, a []Val) Val {
		st := smap(m, a[0])
		if v, ok := st.vals[skey(a[1])]; ok {
			return Tuple{v, Bool{C: true}}
		}
		return Tuple{Iface{}, Bool{C: false}}
	})
	reg("(*sync.Map).Store", func(m *Machine, a []Val) Val {
		st := smap(m, a[0])
		m.checkGlobalWrite(a[0].(Ptr).P)
		k := skey(a[1])
		if _, ok := st.vals[k]; !ok {
			st.keys = append(st.keys, k)
		}
		st.vals[k] = a[2]
		st.kv[k] = a[1]
		return nil
	})
	reg("(*sync.Map).LoadOrStore", func(m *Machine, a []Val) Val {
		st := smap(m, a[0])
		k := skey(a[1])
		if v, ok := st.vals[k]; ok {
			return Tuple{v, Bool{C: true}}
		}
		m.checkGlobalWrite(a[0].(Ptr).P)
		st.keys = append(st.keys, k)
		st.vals[k] = a[2]
		st.kv[k] = a[1]
		return Tuple{a[2], Bool{C: false}}
	})
	reg("(*sync.Map).Delete", func(m *Machine, a []Val) Val {
		st := smap(m, a[0])
		m.checkGlobalWrite(a[0].(Ptr).P)
		delete(st.vals, skey(a[1]))
		return nil
	})

	// ---- bytes.Buffer (Write/Read family; growth uses recover in the real one)
	reg("(*bytes.Buffer).Write", func(m *Machine, a []Val) Val {
		bf := bufField(a[0])
		s := (*bf).(Slice)
		p := a[1].(Slice)
		if p.Blob != nil {
			if len(s.V) == 0 {
				*bf = p
				return Tuple{p.Blob.Len, nilErr()}
			}
			panic(Unsupported{"bytes.Buffer.Write of blob to non-empty buffer"})
		}
		cp := make([]Val, len(p.V))
		copy(cp, p.V)
		*bf = Slice{V: append(append([]Val{}, s.V...), cp...)}
		return Tuple{goInt(len(p.V)), nilErr()}
	})
	reg("(*bytes.Buffer).WriteString", func(m *Machine, a []Val) Val {
		bf := bufField(a[0])
		s := (*bf).(Slice)
		nv := append([]Val{}, s.V...)
		bs := strBytes(a[1].(Str))
		for _, b := range bs {
			nv = append(nv, b)
		}
		*bf = Slice{V: nv}
		return Tuple{goInt(len(bs)), nilErr()}
	})
	reg("(*bytes.Buffer).WriteByte", func(m *Machine, a []Val) Val {
		bf := bufField(a[0])
		s := (*bf).(Slice)
		*bf = Slice{V: append(append([]Val{}, s.V...), a[1])}
		return nilErr()
	})
	reg("(*bytes.Buffer).Len", func(m *Machine, a []Val) Val {
		s := (*bufField(a[0])).(Slice)
		if s.Blob != nil {
			return s.Blob.Len
		}
		return goInt(len(s.V))
	})
	reg("(*bytes.Buffer).Bytes", func(m *Machine, a []Val) Val {
		s := (*bufField(a[0])).(Slice)
		if s.V == nil && s.Blob == nil {
			return Slice{V: []Val{}}
		}
		return s
	})
	reg("(*bytes.Buffer).Reset", func(m *Machine, a []Val) Val {
		*bufField(a[0]) = Slice{V: []Val{}}
		return nil
	})
	reg("bytes.NewBuffer", func(m *Machine, a []Val) Val {
		p := m.newNamed("bytes", "Buffer")
		(*p.P).(Struct)[0] = a[0]
		return p
	})
	reg("(*bytes.Buffer).Read", func(m *Machine, a []Val) Val {
		bf := bufField(a[0])
		s := (*bf).(Slice)
		p := a[1].(Slice)
		if s.Blob != nil || p.Blob != nil {
			panic(Unsupported{"bytes.Buffer.Read on blob"})
		}
		if len(s.V) == 0 {
			if len(p.V) == 0 {
				return Tuple{goInt(0), nilErr()}
			}
			return Tuple{goInt(0), m.eof()}
		}
		n := len(p.V)
		if len(s.V) < n {
			n = len(s.V)
		}
		for i := 0; i < n; i++ {
			p.V[i] = s.V[i]
		}
		*bf = Slice{V: s.V[n:]}
		return Tuple{goInt(n), nilErr()}
	})
	reg("(*bytes.Buffer).ReadByte", func(m *Machine, a []Val) Val {
		bf := bufField(a[0])
		s := (*bf).(Slice)
		if len(s.V) == 0 {
			return Tuple{cInt(0, 8, false), m.eof()}
		}
		b := s.V[0]
		*bf = Slice{V: s.V[1:]}
		return Tuple{b, nilErr()}
	})

	// ---- encoding/binary (reflection in the real one)
	reg("encoding/binary.Write", func(m *Machine, a []Val) Val {
		w := a[0].(Iface)
		data := a[2].(Iface)
		var bs []Val
		switch d := data.V.(type) {
		case Int:
			bs = m.intBytesLE(d)
		case Float:
			bs = m.intBytesLE(Int{Bits: d.Bits, C: d.C, T: d.T})
		case Bool:
			if d.T != nil {
				bs = []Val{Int{Bits: 8, T: m.tIte(d.T, bvConst(1, 8), bvConst(0, 8))}}
			} else if d.C {
				bs = []Val{cInt(1, 8, false)}
			} else {
				bs = []Val{cInt(0, 8, false)}
			}
		case Slice:
			for _, e := range d.V {
				switch x := e.(type) {
				case Int:
					bs = append(bs, m.intBytesLE(x)...)
				case Float:
					bs = append(bs, m.intBytesLE(Int{Bits: x.Bits, C: x.C, T: x.T})...)
				default:
					panic(Unsupported{"binary.Write slice element"})
				}
			}
		default:
			panic(Unsupported{fmt.Sprintf("binary.Write of %T", data.V)})
		}
		if bs == nil {
			bs = []Val{}
		}
		return m.callMethod(w, "Write", Slice{V: bs}).(Tuple)[1]
	})
	reg("encoding/binary.Read", func(m *Machine, a []Val) Val {
		r := a[0].(Iface)
		data := a[2].(Iface)
		pt, ok := data.T.(*types.Pointer)
		if !ok {
			panic(Unsupported{"binary.Read into non-pointer"})
		}
		dst := data.V.(Ptr)
		elemInfo := func(t types.Type) (int, bool, bool) {
			if bits, signed, ok := intInfo(t); ok {
				return bits, signed, false
			}
			switch t.Underlying().(*types.Basic).Kind() {
			case types.Float32:
				return 32, false, true
			case types.Float64:
				return 64, false, true
			}
			panic(Unsupported{"binary.Read element type " + t.String()})
		}
		mk := func(bs []Val, bits int, signed, isF bool) Val {
			i := m.leInt(bs, bits, signed)
			if isF {
				return Float{Bits: bits, C: i.C, T: i.T}
			}
			return i
		}
		if sl, ok := pt.Elem().Underlying().(*types.Slice); ok {
			bits, signed, isF := elemInfo(sl.Elem())
			v := (*dst.P).(Slice)
			bs, err := m.readFull(r, len(v.V)*bits/8)
			if isErr(err) {
				return err
			}
			for i := range v.V {
				v.V[i] = mk(bs[i*bits/8:(i+1)*bits/8], bits, signed, isF)
			}
			return nilErr()
		}
		bits, signed, isF := elemInfo(pt.Elem())
		bs, err := m.readFull(r, bits/8)
		if isErr(err) {
			return err
		}
		*dst.P = mk(bs, bits, signed, isF)
		return nilErr()
	})

	// ---- io helpers
	reg("io.CopyN", func(m *Machine, a []Val) Val {
		dst, src := a[0].(Iface), a[1].(Iface)
		n := m.concretize(a[2].(Int), "CopyN count")
		if n < 0 {
			n = 0
		}
		if n > m.opt.MaxAlloc {
			panic(Unsupported{"CopyN count above MaxAlloc"})
		}
		buf := make([]Val, n)
		for i := range buf {
			buf[i] = cInt(0, 8, false)
		}
		got := 0
		var rerr Val = nilErr()
		for got < n {
			res := m.callMethod(src, "Read", Slice{V: buf[got:]}).(Tuple)
			k := m.concretize(res[0].(Int), "Read count")
			if k < 0 || k > n-got {
				panic(GoPanic{"Read returned an invalid count"})
			}
			got += k
			if isErr(res[1]) {
				rerr = res[1]
				break
			}
			if k == 0 {
				m.zeroReads++
				if m.zeroReads > 100 {
					panic(Unsupported{"Read keeps returning 0, nil"})
				}
			}
		}
		if got > 0 {
			w := m.callMethod(dst, "Write", Slice{V: buf[:got]}).(Tuple)
			if isErr(w[1]) {
				return Tuple{goInt(got), w[1]}
			}
		}
		if got == n {
			return Tuple{goInt(got), nilErr()}
		}
		// CopyN: short copy returns the read error, EOF included
		if !isErr(rerr) {
			rerr = m.eof()
		}
		return Tuple{goInt(got), rerr}
	})
	readAll := func(m *Machine, a []Val) Val {
		r := a[0].(Iface)
		// gzip reader model
		if pb, ok := r.V.(Ptr); ok && pb.P != nil {
			if st, ok := m.sideTab[pb.P].(*gzReader); ok {
				out := make([]Val, len(st.src))
				copy(out, st.src)
				st.src = nil
				return Tuple{Slice{V: out}, nilErr()}
			}
		}
		var out []Val
		for iter := 0; ; iter++ {
			if iter > m.opt.MaxAlloc {
				panic(Unsupported{"ReadAll does not terminate"})
			}
			buf := make([]Val, 512)
			for i := range buf {
				buf[i] = cInt(0, 8, false)
			}
			res := m.callMethod(r, "Read", Slice{V: buf}).(Tuple)
			k := m.concretize(res[0].(Int), "Read count")
			out = append(out, buf[:k]...)
			if isErr(res[1]) {
				if m.isEOF(res[1]) {
					break
				}
				return Tuple{Slice{V: out}, res[1]}
			}
		}
		if out == nil {
			out = []Val{}
		}
		return Tuple{Slice{V: out}, nilErr()}
	}
	reg("io.ReadAll", readAll)
	reg("io/ioutil.ReadAll", readAll)

	// ---- strings / fmt / errors on concrete data
	reg("strings.Join", func(m *Machine, a []Val) Val {
		var parts []string
		for _, e := range a[0].(Slice).V {
			s := e.(Str)
			if s.Sym {
				panic(Unsupported{"strings.Join on symbolic string"})
			}
			parts = append(parts, s.C)
		}
		return Str{C: strings.Join(parts, a[1].(Str).C)}
	})
	reg("strings.Split", func(m *Machine, a []Val) Val {
		var out []Val
		for _, p := range strings.Split(a[0].(Str).C, a[1].(Str).C) {
			out = append(out, Str{C: p})
		}
		return Slice{V: out}
	})
	reg("fmt.Errorf", func(m *Machine, a []Val) Val { return m.newError() })
	reg("errors.New", func(m *Machine, a []Val) Val { return m.newError() })
	reg("fmt.Sprintf", func(m *Machine, a []Val) Val { return Str{C: "<fmt>"} })
	reg("fmt.Sprint", func(m *Machine, a []Val) Val { return Str{C: "<fmt>"} })
	reg("fmt.Println", func(m *Machine, a []Val) Val { return Tuple{goInt(0), nilErr()} })
	reg("fmt.Printf", func(m *Machine, a []Val) Val { return Tuple{goInt(0), nilErr()} })
	reg("context.TODO", func(m *Machine, a []Val) Val { return Iface{} })
	reg("context.Background", func(m *Machine, a []Val) Val { return Iface{} })

	// ---- math
	reg("math.Float32bits", func(m *Machine, a []Val) Val {
		f := a[0].(Float)
		return Int{Bits: 32, C: f.C, T: f.T}
	})
	reg("math.Float64bits", func(m *Machine, a []Val) Val {
		f := a[0].(Float)
		return Int{Bits: 64, C: f.C, T: f.T}
	})
	reg("math.Float32frombits", func(m *Machine, a []Val) Val {
		i := a[0].(Int)
		return Float{Bits: 32, C: i.C, T: i.T}
	})
	reg("math.Float64frombits", func(m *Machine, a []Val) Val {
		i := a[0].(Int)
		return Float{Bits: 64, C: i.C, T: i.T}
	})
	reg("math/bits.Len", func(m *Machine, a []Val) Val {
		n := 0
		for v := uint64(a[0].(Int).AsInt()); v != 0; v >>= 1 {
			n++
		}
		return goInt(n)
	})

	// ---- buffer pool (sync.Pool inside)
	reg("(*"+poolPkg+".Pool).Get", func(m *Machine, a []Val) Val {
		p := m.newNamed(poolPkg, "ByteBuffer")
		m.poolGets++
		if m.opt.PoolStale > 0 {
			// C13: a recycled buffer with arbitrary stale content and some capacity
			var capv int
			if m.opt.PoolStale == 1 {
				// one capacity per path, shared by every Get
				if m.poolCap < 0 {
					m.poolCap = []int{0, 5, 64}[m.choose(3)]
				}
				capv = m.poolCap
			} else {
				capv = []int{0, 5, 64}[m.choose(3)]
			}
			if capv > 0 {
				back := make([]Val, capv)
				for i := range back {
					t := m.fresh(8, "stale")
					back[i] = Int{Bits: 8, T: t}
				}
				(*p.P).(Struct)[fieldIndex(m.namedType(poolPkg, "ByteBuffer"), "B")] = Slice{V: back[:0]}
			}
		}
		return p
	})
	reg("(*"+poolPkg+".Pool).Put", func(m *Machine, a []Val) Val {
		if !m.opt.MonitorPool {
			return nil
		}
		p := a[1].(Ptr)
		if p.P == nil {
			return nil
		}
		st := (*p.P).(Struct)
		if _, twice := m.released[p.P]; twice {
			// the pool would hand the same buffer to two owners
			m.violate("pool-double-put", "concrete", "a buffer is handed to Put twice")
		}
		why := fmt.Sprintf("buffer released by Put #%d", len(m.released))
		m.released[p.P] = why
		for i := range st {
			m.released[&st[i]] = why
		}
		if b, ok := st[fieldIndex(m.namedType(poolPkg, "ByteBuffer"), "B")].(Slice); ok {
			full := b.V[:cap(b.V)]
			for i := range full {
				m.released[&full[i]] = why
			}
		}
		return nil
	})

	// ---- thrift
	reg(thriftPkg+".NewTSerializer", func(m *Machine, a []Val) Val { return m.newNamed(thriftPkg, "TSerializer") })
	reg(thriftPkg+".NewTCompactProtocolFactory", func(m *Machine, a []Val) Val { return Ptr{new(Val)} })
	reg("(*"+thriftPkg+".TCompactProtocolFactory).GetProtocol", func(m *Machine, a []Val) Val { return Iface{} })
	reg("(*"+thriftPkg+".TSerializer).Write", func(m *Machine, a []Val) Val {
		msg := a[2].(Iface)
		ci := len(m.captured)
		m.captured = append(m.captured, captured{T: msg.T, V: deepCopy(*msg.V.(Ptr).P)})
		if m.opt.ModeB {
			id := m.newBlob("thrift", ci, nil, -1)
			ln := m.symLen(1, 1<<20, "hlen")
			return Tuple{Slice{Blob: &Blob{ID: id, Len: ln}}, nilErr()}
		}
		n := 2 + ci%3
		if m.opt.FixedHdr {
			n = 3 // C14: equal structs must have equal encoded lengths (A1)
		}
		if m.opt.HdrLen > 0 {
			n = m.opt.HdrLen
		}
		id := m.newBlob("thrift", ci, nil, n)
		return Tuple{Slice{V: blobBytes(id, n)}, nilErr()}
	})
	reg(thriftPkg+".NewTCompactProtocol", func(m *Machine, a []Val) Val {
		p := new(Val)
		*p = a[0]
		return Ptr{p}
	})
	thriftRead := func(typeName string) Intrinsic { return func(m *Machine, a []Val) Val {
		recv := a[0].(Ptr)
		proto := a[2].(Iface).V.(Ptr)
		trans := (*proto.P).(Iface)
		st := (*trans.V.(Ptr).P).(Struct)
		rd := st[fieldIndex(m.namedType(thriftPkg, "StreamTransport"), "Reader")].(Iface)
		one := func() (Int, Val) {
			buf := []Val{cInt(0, 8, false)}
			for tries := 0; tries < 3; tries++ {
				r := m.callMethod(rd, "Read", Slice{V: buf}).(Tuple)
				k := m.concretize(r[0].(Int), "Read count")
				if k == 1 {
					return buf[0].(Int), nilErr()
				}
				if isErr(r[1]) {
					return Int{}, r[1]
				}
			}
			panic(Unsupported{"Read keeps returning 0, nil"})
		}
		b0, err := one()
		if isErr(err) {
			return err
		}
		misaligned := func(why string) Val {
			m.misaligned = append(m.misaligned, why)
			return m.newError()
		}
		if b0.BID == 0 || b0.BOff != 0 {
			return misaligned("thrift decode at a position that is not the start of an encoded struct")
		}
		id := int(b0.BID - 1)
		bi := m.blobs[id]
		if bi.kind != "thrift" {
			return misaligned("thrift decode at the start of a compressed payload")
		}
		for i := 1; i < bi.n; i++ {
			b, err := one()
			if isErr(err) {
				return err
			}
			if b.BID != b0.BID || int(b.BOff) != i {
				return misaligned("thrift decode runs across a segment boundary")
			}
		}
		cp := m.captured[bi.cap]
		if cp.T.String() != "*"+schPkg+"."+typeName {
			return misaligned("thrift decode of a different struct type")
		}
		// The real decoder assigns the fields that are on the wire and leaves the others of the receiver as they
		// are: an optional field that is unset in the encoded struct keeps whatever the (possibly reused)
		// receiver held before.
		src, okS := deepCopy(cp.V).(Struct)
		dst, okD := (*recv.P).(Struct)
		if okS && okD && len(src) == len(dst) {
			stT := m.namedType(schPkg, typeName).Underlying().(*types.Struct)
			for i := range src {
				if !strings.Contains(stT.Tag(i), "required") {
					if p, isP := src[i].(Ptr); isP && p.P == nil {
						continue
					}
					if sl, isS := src[i].(Slice); isS && sl.Nil {
						continue
					}
				}
				assign(&dst[i], src[i])
			}
			return nilErr()
		}
		assign(recv.P, deepCopy(cp.V))
		return nilErr()
	}}
	reg("(*"+schPkg+".PageHeader).Read", thriftRead("PageHeader"))
	reg("(*"+schPkg+".FileMetaData).Read", thriftRead("FileMetaData"))

	// ---- snappy
	reg("github.com/golang/snappy.Encode", func(m *Machine, a []Val) Val {
		dst, src := a[0].(Slice), a[1].(Slice)
		snap := make([]Val, len(src.V))
		copy(snap, src.V)
		if m.opt.ModeB {
			mx := 32 + len(src.V) + len(src.V)/6
			id := m.newBlob("snappy", -1, snap, -1)
			return Slice{Blob: &Blob{ID: id, Len: m.symLen(1, uint64(mx), "clen")}}
		}
		n := len(src.V) + 2
		if m.opt.CompressDiv > 1 {
			// a codec that shrinks its input (real ones do on repetitive data)
			n = len(src.V)/m.opt.CompressDiv + 1
		}
		id := m.newBlob("snappy", -1, snap, n)
		bs := blobBytes(id, n)
		if len(dst.V) >= n {
			copy(dst.V, bs)
			return Slice{V: dst.V[:n]}
		}
		return Slice{V: bs}
	})
	reg("github.com/golang/snappy.Decode", func(m *Machine, a []Val) Val {
		src := a[1].(Slice)
		if src.Blob != nil {
			bi := m.blobs[src.Blob.ID]
			if bi.kind != "snappy" {
				return Tuple{Slice{Nil: true}, m.newError()}
			}
			return Tuple{Slice{V: append([]Val{}, bi.src...)}, nilErr()}
		}
		id, ok := m.wholeBlob(src.V)
		if !ok || m.blobs[id].kind != "snappy" {
			return Tuple{Slice{Nil: true}, m.newError()}
		}
		return Tuple{Slice{V: append([]Val{}, m.blobs[id].src...)}, nilErr()}
	})

	// ---- gzip
	reg("compress/gzip.NewWriterLevel", func(m *Machine, a []Val) Val {
		p := m.newNamed("compress/gzip", "Writer")
		m.sideTab[p.P] = &gzWriter{w: a[0].(Iface)}
		return Tuple{p, nilErr()}
	})
	reg("(*compress/gzip.Writer).Write", func(m *Machine, a []Val) Val {
		st := m.sideTab[a[0].(Ptr).P].(*gzWriter)
		p := a[1].(Slice)
		st.src = append(st.src, p.V...)
		return Tuple{goInt(len(p.V)), nilErr()}
	})
	reg("(*compress/gzip.Writer).Close", func(m *Machine, a []Val) Val {
		st := m.sideTab[a[0].(Ptr).P].(*gzWriter)
		if st.closed {
			return nilErr()
		}
		st.closed = true
		snap := append([]Val{}, st.src...)
		var out Slice
		if m.opt.ModeB {
			id := m.newBlob("gzip", -1, snap, -1)
			out = Slice{Blob: &Blob{ID: id, Len: m.symLen(18, uint64(len(snap)+64), "zlen")}}
		} else {
			n := len(snap) + 18
			if m.opt.CompressDiv > 1 {
				n = len(snap)/m.opt.CompressDiv + 1
			}
			id := m.newBlob("gzip", -1, snap, n)
			out = Slice{V: blobBytes(id, n)}
		}
		return m.callMethod(st.w, "Write", out).(Tuple)[1]
	})
	reg("compress/gzip.NewReader", func(m *Machine, a []Val) Val {
		r := a[0].(Iface)
		// read everything the underlying reader has
		all := readAll(m, []Val{r}).(Tuple)
		if isErr(all[1]) {
			return Tuple{Ptr{}, all[1]}
		}
		bs := all[0].(Slice).V
		id, ok := m.wholeBlob(bs)
		if !ok || m.blobs[id].kind != "gzip" {
			return Tuple{Ptr{}, m.newError()}
		}
		p := m.newNamed("compress/gzip", "Reader")
		m.sideTab[p.P] = &gzReader{src: append([]Val{}, m.blobs[id].src...)}
		return Tuple{p, nilErr()}
	})
	reg("(*compress/gzip.Reader).Close", func(m *Machine, a []Val) Val { return nilErr() })
	reg("(*compress/gzip.Reader).Read", func(m *Machine, a []Val) Val {
		st := m.sideTab[a[0].(Ptr).P].(*gzReader)
		p := a[1].(Slice)
		if len(st.src) == 0 {
			return Tuple{goInt(0), m.eof()}
		}
		// a decompressor is an io.Reader like any other: one Read may return
		// fewer bytes than asked for (flate returns at most one 32 KiB window)
		n := len(p.V)
		if len(st.src) < n {
			n = len(st.src)
		}
		if n > 1 && m.choose(2) == 1 {
			n = (n + 1) / 2
		}
		copy(p.V[:n], st.src[:n])
		st.src = st.src[n:]
		return Tuple{goInt(n), nilErr()}
	})
}

type gzWriter struct {
	w      Iface
	src    []Val
	closed bool
}

type gzReader struct{ src []Val }

// deepCopy copies a value and everything reachable through pointers and
// slices (used to snapshot a thrift struct at serialisation time).
func deepCopy(v Val) Val {
	switch x := v.(type) {
	case Struct:
		n := make(Struct, len(x))
		for i := range x {
			n[i] = deepCopy(x[i])
		}
		return n
	case Array:
		n := make(Array, len(x))
		for i := range x {
			n[i] = deepCopy(x[i])
		}
		return n
	case Ptr:
		if x.P == nil {
			return x
		}
		p := new(Val)
		*p = deepCopy(*x.P)
		return Ptr{p}
	case Slice:
		if x.Blob != nil || x.V == nil {
			return x
		}
		n := make([]Val, len(x.V))
		for i := range x.V {
			n[i] = deepCopy(x.V[i])
		}
		return Slice{V: n, Nil: x.Nil}
	}
	return v
}
