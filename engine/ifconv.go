package main

import (
	"go/token"

	"golang.org/x/tools/go/ssa"
)

// order returns the instructions of b with gc's evaluation order for the
// pattern  "... v ..., f(&v)"  (read of an address-taken local in the same
// operand list as a call that receives its address): go/ssa reads v first,
// gc reads it after the call.  The load and its pure dependents (conversions
// only) are moved after the call when nothing in between uses them.
func (m *Machine) order(b *ssa.BasicBlock) []ssa.Instruction {
	if o, ok := m.ordered[b]; ok {
		return o
	}
	ins := append([]ssa.Instruction{}, b.Instrs...)
	for i := 0; i < len(ins); i++ {
		ld, ok := ins[i].(*ssa.UnOp)
		if !ok || ld.Op != token.MUL {
			continue
		}
		al, ok := ld.X.(*ssa.Alloc)
		if !ok {
			continue
		}
		carriers := map[ssa.Value]bool{al: true}
		callAt := -1
		for j := 0; j < len(ins); j++ {
			if mi, ok := ins[j].(*ssa.MakeInterface); ok && carriers[mi.X] {
				carriers[mi] = true
			}
			if j > i {
				if c, ok := ins[j].(*ssa.Call); ok {
					for _, a := range c.Call.Args {
						if carriers[a] {
							callAt = j
						}
					}
					if callAt >= 0 {
						break
					}
				}
			}
		}
		if callAt < 0 {
			continue
		}
		moved := map[ssa.Value]bool{ld: true}
		set := []ssa.Instruction{ld}
		okMove := true
		for k := i + 1; k < callAt; k++ {
			uses := false
			for _, op := range ins[k].Operands(nil) {
				if *op != nil && moved[*op] {
					uses = true
				}
			}
			if !uses {
				// a store to the same alloc in between would make the move unsound
				if st, ok := ins[k].(*ssa.Store); ok && st.Addr == al {
					okMove = false
				}
				continue
			}
			switch v := ins[k].(type) {
			case *ssa.Convert:
				moved[v] = true
				set = append(set, v)
			case *ssa.ChangeType:
				moved[v] = true
				set = append(set, v)
			default:
				okMove = false
			}
		}
		for _, op := range ins[callAt].Operands(nil) {
			if *op != nil && moved[*op] {
				okMove = false
			}
		}
		where := b.Parent().String()
		if !okMove {
			m.Reordered["refused: "+where] = true
			continue
		}
		var out []ssa.Instruction
		for k, in := range ins {
			isMoved := false
			for _, s := range set {
				if s == in {
					isMoved = true
				}
			}
			if !isMoved {
				out = append(out, in)
			}
			if k == callAt {
				out = append(out, set...)
			}
		}
		ins = out
		m.Reordered["applied: "+where] = true
	}
	m.ordered[b] = ins
	return ins
}

func simpleArm(blk *ssa.BasicBlock) (*ssa.BasicBlock, bool) {
	if len(blk.Succs) != 1 || len(blk.Preds) != 1 {
		return nil, false
	}
	for _, in := range blk.Instrs {
		switch in.(type) {
		case *ssa.FieldAddr, *ssa.IndexAddr, *ssa.UnOp, *ssa.BinOp, *ssa.Convert, *ssa.ChangeType,
			*ssa.Store, *ssa.Jump, *ssa.DebugRef, *ssa.Field:
		default:
			return nil, false
		}
	}
	return blk.Succs[0], true
}

type armResult struct {
	writes map[*Val]Val
	order  []*Val
}

// execArm runs a straight-line arm against an undo log and returns the
// final value of every slot it wrote; memory is restored before returning.
func (m *Machine) execArm(fr *frame, blk *ssa.BasicBlock) (res armResult, ok bool) {
	res.writes = map[*Val]Val{}
	undo := map[*Val]Val{}
	var undoOrder []*Val
	m.inArm = true
	ok = true
	defer func() {
		m.inArm = false
		for _, p := range res.order {
			res.writes[p] = *p
		}
		for _, p := range undoOrder {
			*p = undo[p]
		}
		if r := recover(); r != nil {
			switch r.(type) {
			case GoPanic, Unsupported:
				ok = false
			default:
				panic(r)
			}
		}
	}()
	for _, in := range blk.Instrs {
		m.steps++
		switch x := in.(type) {
		case *ssa.DebugRef, *ssa.Jump:
		case *ssa.FieldAddr:
			p := m.get(fr, x.X).(Ptr)
			if p.P == nil {
				panic(GoPanic{"nil"})
			}
			s := (*p.P).(Struct)
			fr.env[x] = Ptr{&s[x.Field]}
		case *ssa.Field:
			fr.env[x] = copyVal(m.get(fr, x.X).(Struct)[x.Field])
		case *ssa.IndexAddr:
			idx := m.get(fr, x.Index).(Int)
			if idx.T != nil {
				panic(Unsupported{"symbolic index in arm"})
			}
			fr.env[x] = m.indexAddr(fr, x, m.get(fr, x.X), idx)
		case *ssa.UnOp:
			fr.env[x] = m.unop(fr, x, m.get(fr, x.X))
		case *ssa.BinOp:
			if x.Op == token.QUO || x.Op == token.REM {
				if d, isInt := m.get(fr, x.Y).(Int); !isInt || d.T != nil || d.C == 0 {
					panic(Unsupported{"division by a non-constant in arm"})
				}
			}
			if x.Op == token.SHL || x.Op == token.SHR {
				if c, isInt := m.get(fr, x.Y).(Int); isInt && c.T != nil {
					panic(Unsupported{"symbolic shift in arm"})
				}
			}
			fr.env[x] = m.binop(x.Op, m.get(fr, x.X), m.get(fr, x.Y))
		case *ssa.Convert:
			fr.env[x] = m.convert(m.get(fr, x.X), x.X.Type(), x.Type())
		case *ssa.ChangeType:
			fr.env[x] = m.get(fr, x.X)
		case *ssa.Store:
			p := m.get(fr, x.Addr).(Ptr)
			if p.P == nil {
				panic(GoPanic{"nil"})
			}
			v := m.get(fr, x.Val)
			switch v.(type) {
			case Int, Bool, Float:
			default:
				panic(Unsupported{"non-scalar store in arm"})
			}
			if _, seen := undo[p.P]; !seen {
				undo[p.P] = *p.P
				undoOrder = append(undoOrder, p.P)
				res.order = append(res.order, p.P)
			}
			*p.P = v
		}
	}
	return res, true
}

func (m *Machine) mergeVal(c *Term, a, b Val) (Val, bool) {
	switch x := a.(type) {
	case Int:
		y, ok := b.(Int)
		if !ok || y.Bits != x.Bits {
			return nil, false
		}
		if x.T == nil && y.T == nil && x.C == y.C {
			return x, true
		}
		return Int{Bits: x.Bits, Signed: x.Signed, T: m.tIte(c, x.Term(), y.Term())}, true
	case Bool:
		y, ok := b.(Bool)
		if !ok {
			return nil, false
		}
		if x.T == nil && y.T == nil && x.C == y.C {
			return x, true
		}
		return mkBool(m.tIte(c, x.Term(), y.Term())), true
	case Float:
		y, ok := b.(Float)
		if !ok || y.Bits != x.Bits {
			return nil, false
		}
		if x.T == nil && y.T == nil && x.C == y.C {
			return x, true
		}
		return Float{Bits: x.Bits, T: m.tIte(c, x.BV(), y.BV())}, true
	}
	return nil, false
}

// ifConvert merges a symbolic branch whose arms are straight-line scalar
// stores into ite terms.  Returns the join block.
func (m *Machine) ifConvert(fr *frame, b *ssa.BasicBlock, c *Term) (*ssa.BasicBlock, bool) {
	if m.inArm || m.opt.NoIfConv {
		return nil, false
	}
	T, F := b.Succs[0], b.Succs[1]
	var join, armT, armF *ssa.BasicBlock
	jt, okT := simpleArm(T)
	jf, okF := simpleArm(F)
	switch {
	case okT && jt == F:
		join, armT = F, T
	case okF && jf == T:
		join, armF = T, F
	case okT && okF && jt == jf:
		join, armT, armF = jt, T, F
	default:
		return nil, false
	}
	// the join must have exactly the two expected predecessors for the phi
	// handling below to be right
	var rT, rF armResult
	ok := true
	if armT != nil {
		rT, ok = m.execArm(fr, armT)
		if !ok {
			return nil, false
		}
	}
	if armF != nil {
		rF, ok = m.execArm(fr, armF)
		if !ok {
			return nil, false
		}
	}
	phiVals := map[*ssa.Phi]Val{}
	predT, predF := b, b
	if armT != nil {
		predT = armT
	}
	if armF != nil {
		predF = armF
	}
	// values defined inside an arm are only in fr.env after execArm; the
	// phi edges may refer to them, which is fine because env is not undone.
	for _, in := range join.Instrs {
		phi, isPhi := in.(*ssa.Phi)
		if !isPhi {
			break
		}
		var vT, vF Val
		for i, p := range join.Preds {
			if p == predT {
				vT = m.get(fr, phi.Edges[i])
			}
			if p == predF {
				vF = m.get(fr, phi.Edges[i])
			}
		}
		// values loaded inside an arm saw the arm's memory: they are already terms
		mv, ok := m.mergeVal(c, vT, vF)
		if !ok {
			return nil, false
		}
		phiVals[phi] = mv
	}
	type upd struct {
		p *Val
		v Val
	}
	var upds []upd
	seen := map[*Val]bool{}
	for _, lst := range [][]*Val{rT.order, rF.order} {
		for _, p := range lst {
			if seen[p] {
				continue
			}
			seen[p] = true
			vT, okT := rT.writes[p]
			if !okT {
				vT = *p
			}
			vF, okF := rF.writes[p]
			if !okF {
				vF = *p
			}
			mv, ok := m.mergeVal(c, vT, vF)
			if !ok {
				return nil, false
			}
			upds = append(upds, upd{p, mv})
		}
	}
	for _, u := range upds {
		*u.p = u.v
	}
	for phi, v := range phiVals {
		fr.env[phi] = v
	}
	m.IfConv++
	return join, true
}
