package main

import (
	"bufio"
	"context"
	"os"
	"fmt"
	"io"
	"os/exec"
	"strings"
	"time"
)

// Solver is one persistent `z3 -in` session.  Every path is a (push)…(pop)
// scope; path-condition conjuncts are asserted once inside it and every
// query is a nested push / assert / check-sat / pop.
type Solver struct {
	cmd     *exec.Cmd
	in      *bufio.Writer
	inc     io.WriteCloser
	out     *bufio.Reader
	decls   map[string]bool
	Queries int
	Time    time.Duration
	Errors  []string
	// transcript of the current path (commands and answers) when recording
	rec     bool
	Script  []string
	Answers []string
	timeout int
	full    []string // every command of the current path
	Fallbacks int
}

func NewSolver(timeoutMs int) *Solver {
	cmd := exec.Command("z3", "-in")
	in, _ := cmd.StdinPipe()
	out, _ := cmd.StdoutPipe()
	cmd.Stderr = cmd.Stdout
	if err := cmd.Start(); err != nil {
		panic(err)
	}
	s := &Solver{cmd: cmd, inc: in, in: bufio.NewWriterSize(in, 1<<16), out: bufio.NewReaderSize(out, 1<<16), decls: map[string]bool{}, timeout: timeoutMs}
	s.raw(fmt.Sprintf("(set-option :timeout %d)", timeoutMs))
	return s
}

func (s *Solver) raw(x string) {
	s.in.WriteString(x)
	s.in.WriteByte('\n')
}

// Send writes a command that produces no output.
func (s *Solver) Send(x string) {
	if s.rec {
		s.Script = append(s.Script, x)
	}
	s.full = append(s.full, x)
	s.raw(x)
}

// fallback replays the current path's commands (without earlier check-sats)
// on cvc5 and returns its answer to the last check-sat.
func (s *Solver) fallback() string {
	f, err := os.CreateTemp("", "gosym-fb-*.smt2")
	if err != nil {
		return "unknown"
	}
	defer os.Remove(f.Name())
	fmt.Fprintln(f, "(set-logic ALL)")
	last := len(s.full) - 1
	for i, l := range s.full {
		if l == "(check-sat)" && i != last {
			continue
		}
		if strings.HasPrefix(l, "(set-option") {
			continue
		}
		fmt.Fprintln(f, l)
	}
	f.Close()
	ctx, cancel := context.WithTimeout(context.Background(), time.Duration(s.timeout*3)*time.Millisecond)
	defer cancel()
	out, _ := exec.CommandContext(ctx, "cvc5", "--incremental", "--solve-bv-as-int=sum", f.Name()).Output()
	ans := "unknown"
	for _, l := range strings.Split(string(out), "\n") {
		l = strings.TrimSpace(l)
		if l == "sat" || l == "unsat" || l == "unknown" {
			ans = l
		}
	}
	return ans
}

func (s *Solver) BeginPath(record bool) {
	s.decls = map[string]bool{}
	s.rec = record
	s.Script, s.Answers = nil, nil
	s.full = s.full[:0]
	s.Send("(push)")
}

func (s *Solver) EndPath() {
	s.Send("(pop)")
	s.rec = false
}

func (s *Solver) Declare(name string, sort int) {
	if s.decls[name] {
		return
	}
	s.decls[name] = true
	s.Send(fmt.Sprintf("(declare-const %s %s)", name, sortText(sort)))
}

func (s *Solver) Assert(t *Term) {
	if t.S == "true" {
		return
	}
	s.Send("(assert " + t.S + ")")
}

// sync reads solver output up to the echo marker.
func (s *Solver) sync() []string {
	s.raw("(echo \"##sync\")")
	s.in.Flush()
	var lines []string
	for {
		line, err := s.out.ReadString('\n')
		if err != nil {
			panic(Unsupported{"solver died: " + err.Error()})
		}
		line = strings.TrimSpace(line)
		if line == "##sync" || line == "\"##sync\"" {
			break
		}
		if line == "" {
			continue
		}
		if strings.HasPrefix(line, "(error") {
			s.Errors = append(s.Errors, line)
		}
		lines = append(lines, line)
	}
	return lines
}

// Check asks whether (path condition ∧ extra) is satisfiable.  Returns
// "sat", "unsat" or "unknown"; any solver error line makes it "unknown".
func (s *Solver) Check(extra *Term) string {
	r, _ := s.CheckModel(extra, nil)
	return r
}

// CheckModel is Check plus the values of the named constants when sat.
func (s *Solver) CheckModel(extra *Term, names []string) (string, map[string]string) {
	t0 := time.Now()
	s.Queries++
	s.Send("(push)")
	if extra != nil {
		s.Assert(extra)
	}
	s.Send("(check-sat)")
	nerr := len(s.Errors)
	lines := s.sync()
	res := "unknown"
	for _, l := range lines {
		if l == "sat" || l == "unsat" || l == "unknown" || l == "timeout" {
			res = l
		}
	}
	if len(s.Errors) > nerr || res == "timeout" {
		res = "unknown"
	}
	if res == "unknown" && len(s.Errors) == nerr && s.full != nil {
		// second opinion: the same scope on cvc5 with the integer encoding of
		// bit-vectors (decides comparison chains that stall bit-blasting)
		if r2 := s.fallback(); r2 == "unsat" {
			res = "unsat"
			s.Fallbacks++
		}
	}
	if s.rec {
		s.Answers = append(s.Answers, res)
	}
	var model map[string]string
	if res == "sat" && len(names) > 0 {
		model = map[string]string{}
		// chunk so that a line stays reasonable
		for i := 0; i < len(names); i += 64 {
			j := i + 64
			if j > len(names) {
				j = len(names)
			}
			s.raw("(get-value (" + strings.Join(names[i:j], " ") + "))")
			txt := strings.Join(s.sync(), " ")
			parseValues(txt, model)
		}
	}
	s.Send("(pop)")
	s.Time += time.Since(t0)
	return res, model
}

// parseValues parses "((a #x01) (b true) (c (_ bv3 5)))" into m.
func parseValues(txt string, m map[string]string) {
	toks := tokenize(txt)
	// expect ( ( name value ) ... )
	i := 0
	if i < len(toks) && toks[i] == "(" {
		i++
	}
	for i < len(toks) && toks[i] == "(" {
		i++
		if i >= len(toks) {
			return
		}
		name := toks[i]
		i++
		// value: atom or balanced list
		if i < len(toks) && toks[i] == "(" {
			depth := 0
			var parts []string
			for i < len(toks) {
				if toks[i] == "(" {
					depth++
				} else if toks[i] == ")" {
					depth--
				}
				parts = append(parts, toks[i])
				i++
				if depth == 0 {
					break
				}
			}
			m[name] = strings.Join(parts, " ")
		} else if i < len(toks) {
			m[name] = toks[i]
			i++
		}
		if i < len(toks) && toks[i] == ")" {
			i++
		}
	}
}

func tokenize(s string) []string {
	var out []string
	cur := ""
	for _, c := range s {
		switch c {
		case '(', ')':
			if cur != "" {
				out = append(out, cur)
				cur = ""
			}
			out = append(out, string(c))
		case ' ', '\t', '\n', '\r':
			if cur != "" {
				out = append(out, cur)
				cur = ""
			}
		default:
			cur += string(c)
		}
	}
	if cur != "" {
		out = append(out, cur)
	}
	return out
}

// modelUint converts an SMT value ("#x0a", "#b101", "( _ bv3 8 )", "true") to uint64.
func modelUint(v string) uint64 {
	v = strings.TrimSpace(v)
	switch {
	case v == "true":
		return 1
	case v == "false":
		return 0
	case strings.HasPrefix(v, "#x"):
		var x uint64
		fmt.Sscanf(v[2:], "%x", &x)
		return x
	case strings.HasPrefix(v, "#b"):
		var x uint64
		for _, c := range v[2:] {
			x = x<<1 | uint64(c-'0')
		}
		return x
	case strings.HasPrefix(v, "( _ bv"):
		var x uint64
		fmt.Sscanf(v[len("( _ bv"):], "%d", &x)
		return x
	}
	return 0
}

func (s *Solver) Close() {
	s.in.Flush()
	s.inc.Close()
	s.cmd.Wait()
}
