package main

import (
	"fmt"
	"go/types"

	"golang.org/x/tools/go/ssa"
)

type Val interface{}

// Int is an integer of a fixed width; T != nil means symbolic.
// BID/BOff tag a byte as "byte BOff of opaque blob BID-1" (mode A stubs).
type Int struct {
	Bits   int
	Signed bool
	C      uint64
	T      *Term
	BID    int32
	BOff   int32
}

// Float is an IEEE value kept as its bit pattern; T (if set) is a BitVec term.
type Float struct {
	Bits int
	C    uint64
	T    *Term
}

func (f Float) BV() *Term {
	if f.T != nil {
		return f.T
	}
	return bvConst(f.C, f.Bits)
}

type Bool struct {
	C bool
	T *Term
}

// Str: concrete string, or symbolic bytes (length concrete).
type Str struct {
	C   string
	B   []Int // if Sym
	Sym bool
}

type Struct []Val
type Array []Val
type Ptr struct{ P *Val }

type Slice struct {
	V    []Val
	Nil  bool
	Blob *Blob // opaque segment with symbolic length (mode B)
}

// Blob is an opaque byte segment: a thrift-encoded struct or a compressed
// payload.  Len is symbolic in mode B.
type Blob struct {
	ID  int
	Len Int
}

type Map struct {
	M    map[interface{}]*Val
	Keys *[]interface{} // insertion order
	Nil  bool
}

type Iface struct {
	T types.Type // nil => nil interface
	V Val
}

type Func struct {
	Fn      *ssa.Function
	Env     []Val
	Builtin *ssa.Builtin
	Nil     bool
}

type Tuple []Val

// Iter is the state of a range-over-map/string.
type Iter struct {
	Keys []interface{}
	M    Map
	S    []Int
	IsS  bool
	I    *int
}

func mask(bits int) uint64 {
	if bits >= 64 {
		return ^uint64(0)
	}
	return (uint64(1) << uint(bits)) - 1
}

func cInt(v uint64, bits int, signed bool) Int {
	return Int{Bits: bits, Signed: signed, C: v & mask(bits)}
}

func goInt(v int) Int { return cInt(uint64(v), 64, true) }

func (i Int) Term() *Term {
	if i.T != nil {
		return i.T
	}
	return bvConst(i.C, i.Bits)
}

func (b Bool) Term() *Term {
	if b.T != nil {
		return b.T
	}
	return boolConst(b.C)
}

func mkBool(t *Term) Bool {
	switch t.S {
	case "true":
		return Bool{C: true}
	case "false":
		return Bool{C: false}
	}
	return Bool{T: t}
}

// SignedVal is the signed value of a concrete int.
func (i Int) SignedVal() int64 {
	if i.Bits >= 64 {
		return int64(i.C)
	}
	sh := uint(64 - i.Bits)
	return int64(i.C<<sh) >> sh
}

func (i Int) AsInt() int {
	if i.T != nil {
		panic(Unsupported{"symbolic int used where a concrete one is needed: " + i.T.S})
	}
	if i.Signed {
		return int(i.SignedVal())
	}
	return int(i.C)
}

// Unsupported ends a path INCONCLUSIVE.
type Unsupported struct{ Msg string }

func (u Unsupported) Error() string { return "unsupported: " + u.Msg }

// GoPanic is a run-time panic of the program under test.
type GoPanic struct{ Msg string }

// pathAbort ends a path silently (infeasible assumption).
type pathAbort struct{}

func intInfo(t types.Type) (bits int, signed bool, ok bool) {
	b, isb := t.Underlying().(*types.Basic)
	if !isb {
		return 0, false, false
	}
	switch b.Kind() {
	case types.Int8:
		return 8, true, true
	case types.Int16:
		return 16, true, true
	case types.Int32:
		return 32, true, true
	case types.Int64, types.Int, types.UntypedInt, types.UntypedRune:
		return 64, true, true
	case types.Uint8:
		return 8, false, true
	case types.Uint16:
		return 16, false, true
	case types.Uint32:
		return 32, false, true
	case types.Uint64, types.Uint, types.Uintptr:
		return 64, false, true
	}
	return 0, false, false
}

func zero(t types.Type) Val {
	switch u := t.Underlying().(type) {
	case *types.Basic:
		if bits, signed, ok := intInfo(t); ok {
			return Int{Bits: bits, Signed: signed}
		}
		switch u.Kind() {
		case types.Bool, types.UntypedBool:
			return Bool{}
		case types.String, types.UntypedString:
			return Str{}
		case types.UnsafePointer:
			return Ptr{}
		case types.UntypedNil:
			return nil
		case types.Float32:
			return Float{Bits: 32}
		case types.Float64, types.UntypedFloat:
			return Float{Bits: 64}
		}
		panic(Unsupported{"zero of " + t.String()})
	case *types.Struct:
		s := make(Struct, u.NumFields())
		for i := range s {
			s[i] = zero(u.Field(i).Type())
		}
		return s
	case *types.Array:
		a := make(Array, u.Len())
		for i := range a {
			a[i] = zero(u.Elem())
		}
		return a
	case *types.Pointer:
		return Ptr{}
	case *types.Slice:
		return Slice{Nil: true}
	case *types.Map:
		return Map{Nil: true}
	case *types.Interface:
		return Iface{}
	case *types.Signature:
		return Func{Nil: true}
	case *types.Tuple:
		tp := make(Tuple, u.Len())
		for i := range tp {
			tp[i] = zero(u.At(i).Type())
		}
		return tp
	case *types.Chan:
		return nil
	}
	panic(Unsupported{fmt.Sprintf("zero of %T %s", t.Underlying(), t)})
}

// copyVal implements Go value semantics for aggregates.
func copyVal(v Val) Val {
	switch x := v.(type) {
	case Struct:
		n := make(Struct, len(x))
		for i := range x {
			n[i] = copyVal(x[i])
		}
		return n
	case Array:
		n := make(Array, len(x))
		for i := range x {
			n[i] = copyVal(x[i])
		}
		return n
	case Tuple:
		n := make(Tuple, len(x))
		for i := range x {
			n[i] = copyVal(x[i])
		}
		return n
	}
	return v
}

// assign stores src into *dst element-wise so that addresses of fields and
// array elements taken earlier remain valid (real memory semantics).
func assign(dst *Val, src Val) {
	switch s := src.(type) {
	case Struct:
		if d, ok := (*dst).(Struct); ok && len(d) == len(s) {
			for i := range s {
				assign(&d[i], s[i])
			}
			return
		}
	case Array:
		if d, ok := (*dst).(Array); ok && len(d) == len(s) {
			for i := range s {
				assign(&d[i], s[i])
			}
			return
		}
	}
	*dst = copyVal(src)
}

func strBytes(s Str) []Int {
	if s.Sym {
		return s.B
	}
	out := make([]Int, len(s.C))
	for i := 0; i < len(s.C); i++ {
		out[i] = cInt(uint64(s.C[i]), 8, false)
	}
	return out
}

func strLen(s Str) int {
	if s.Sym {
		return len(s.B)
	}
	return len(s.C)
}

// mkStr builds a string from bytes, concrete when all bytes are.
func mkStr(bs []Int) Str {
	allC := true
	for _, e := range bs {
		if e.T != nil {
			allC = false
			break
		}
	}
	if allC {
		b := make([]byte, len(bs))
		for i, e := range bs {
			b[i] = byte(e.C)
		}
		return Str{C: string(b)}
	}
	cp := make([]Int, len(bs))
	copy(cp, bs)
	return Str{Sym: true, B: cp}
}
