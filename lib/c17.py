"""C17 — bit-packing of 8-value groups is exactly invertible and spec-ordered."""
import os, shutil
from vcommon import *

PKG = MODPATH + '/internal/bitpack'


def main(tier, replay):
    c = Check('C17', 'model_checking', tier)
    h = os.path.join(HARNESS, 'c17_bitpack.go')
    ov, ctx = repo_overlay(c, 'internal/bitpack', 'bitpack', [h])
    if replay:
        ok, out = c.native_replay(replay, ctx)
        log(out[-3000:])
        log('REPRODUCED' if ok else 'NOT REPRODUCED')
        sys.exit(1 if ok else 0)
    jobs = []
    for w in (1, 2, 3, 4):
        jobs.append({'name': 'pack-w%d' % w, 'pkg': PKG, 'func': 'HarnessPack', 'args': [w, 0]})
        jobs.append({'name': 'unpack-w%d' % w, 'pkg': PKG, 'func': 'HarnessUnpack', 'args': [w, 0]})
        jobs.append({'name': 'sens-pack-w%d' % w, 'pkg': PKG, 'func': 'HarnessPack', 'args': [w, 1], 'expect': 'spec layout'})
        jobs.append({'name': 'sens-unpack-w%d' % w, 'pkg': PKG, 'func': 'HarnessUnpack', 'args': [w, 1], 'expect': 'spec order'})
    for w in (1, 2, 3, 4):
        jobs.append({'name': 'held-w%d' % w, 'pkg': PKG, 'func': 'HarnessHeld', 'args': [w, 1 + w % 4]})
    jobs.append({'name': 'vacuity-twin', 'pkg': PKG, 'func': 'HarnessVacuity', 'args': [2], 'expect': 'vacuity'})
    c.engine(REPO, [PKG], ov, jobs, ctx=ctx, record=50 if tier == 'thorough' else 0)
    # engine vs native build on concrete pseudo-random groups (observations: packed bytes, unpacked values)
    c2 = dict(ctx, dir=REPO, overlay=ov)
    for w in (1, 2, 3, 4):
        differential(c, {'name': 'pack-w%d' % w, 'pkg': PKG, 'func': 'HarnessPack', 'args': [w, 0]}, c2, runs=50 if tier == 'quick' else 200)
        differential(c, {'name': 'unpack-w%d' % w, 'pkg': PKG, 'func': 'HarnessUnpack', 'args': [w, 0]}, c2, runs=50 if tier == 'quick' else 200)

    # the generator behind the checked-in file: regenerate from the working tree and check that too
    mod = make_scratch_module(c)
    gd = os.path.join(mod, 'bitpackgen')
    os.makedirs(gd)
    rc, out = sh(['go', 'run', './cmd/bitpackgen', '-package', 'bitpackgen', '-maxwidth', '4', '-output', os.path.join(gd, 'bitpack.go')], cwd=REPO)
    if rc != 0:
        c.inconclusive.append('bitpackgen failed: ' + out[-300:])
    else:
        shutil.copy(h, os.path.join(gd, 'zz_verif_h0.go'))
        txt = open(os.path.join(gd, 'zz_verif_h0.go')).read().replace('package bitpack', 'package bitpackgen')
        open(os.path.join(gd, 'zz_verif_h0.go'), 'w').write(txt)
        shutil.copy(intr_sym('bitpackgen', c.scratch), os.path.join(gd, 'zz_verif_i.go'))
        write_pkg_manifest(gd, 'bitpackgen', [], {})
        gjobs = []
        for w in (1, 2, 3, 4):
            gjobs.append({'name': 'gen-pack-w%d' % w, 'pkg': 'scratch/bitpackgen', 'func': 'HarnessPack', 'args': [w, 0]})
            gjobs.append({'name': 'gen-unpack-w%d' % w, 'pkg': 'scratch/bitpackgen', 'func': 'HarnessUnpack', 'args': [w, 0]})
            gjobs.append({'name': 'gen-held-w%d' % w, 'pkg': 'scratch/bitpackgen', 'func': 'HarnessHeld', 'args': [w, 1 + w % 4]})
        c.engine(mod, ['scratch/bitpackgen'], {}, gjobs, ctx={'replay': 'scratch_pkg', 'pkgdir': gd, 'pkgname': 'bitpackgen'})

    c.bounds = {'widths': [1, 2, 3, 4], 'values': 'all 8 input bytes free (2^64 groups per width, masked form)', 'bytes': 'all w-byte groups free',
                'outside': 'widths 0 and >4 (Pack/Unpack return their input / an empty slice); call sites are covered by C07'}
    c.assumptions = ['go/ssa semantics of the executed functions equal gc semantics (integer-only, no calls): validated by native replay of the seeded counterexamples',
                     'regenerated code: output of `go run ./cmd/bitpackgen -maxwidth 4` from the working tree is checked in addition to the checked-in file']
    c.extra['exhaustive'] = True
    c.finish('one job per (function, width); each job is ONE symbolic path whose inputs are free bit-vector variables, so a discharged obligation covers every 8-tuple / every w-byte group; a job is non-trivial when at least one obligation needed the solver',
             'pack1..4/unpack1..4 + Pack/Unpack dispatch executed from SSA; obligations: results held across later calls are unchanged, inputs untouched, length, prefix kept, LSB-first little-endian layout vs. a 32-bit accumulator reference, unpack∘pack = id (masked), pack∘unpack = id')
