"""C15 — a struct regenerated from a file reads that file back faithfully."""
from vcommon import *
import progs, c01, c14, random, hashlib

BASE_TEMPLATES = ['gsupport.go.tmpl', 'gh_roundtrip.go.tmpl']
PAIR_SYM = ['gh_pair.go.tmpl', 'gpair_sym.go.tmpl']


SHAPE_CANON = {}


def programs(quick, seed):
    shapes = list(progs.nonrepeated_shapes(3 if quick else 4))
    rnd = random.Random(seed)
    if quick:
        shapes = rnd.sample(shapes, min(28, len(shapes)))
    P = {}
    SHAPE_CANON.clear()
    for i, (s, n) in enumerate(shapes):
        P['r%03d' % i] = progs.c15_program('r%03d' % i, s, offset=i)
        SHAPE_CANON['r%03d' % i] = progs.shape_canon(s)
    # a wider hand-written one: all six types required and optional, two groups (one nested)
    L, G = progs.leaf, progs.group
    P['rwide'] = progs.Program('rwide', [L('Id', 'int32', tag='id'), L('Big', 'int64', 'opt', tag='big'), L('Ratio', 'float32', tag='ratio'), L('Score', 'float64', 'opt', tag='score'),
                                         L('Ok', 'bool', 'opt', tag='ok'), L('Name', 'string', tag='name'),
                                         G('Address', [L('City', 'string', 'opt', tag='city'), G('Geo', [L('Lat', 'float64', tag='lat'), L('Lon', 'float64', 'opt', tag='lon')], 'opt', tag='geo')], 'opt', tag='address'),
                                         G('Meta', [L('Flag', 'bool', tag='flag'), L('Count', 'int64', tag='count')], tag='meta')])
    # group paths whose names concatenate to the same string (a.b vs ab; a.bc vs ab.c)
    P['rconcat1'] = progs.Program('rconcat1', [L('Id', 'int64', tag='id'), G('A', [G('B', [L('X', 'int32', tag='x')], 'opt', tag='b')], tag='a'), G('Ab', [L('Y', 'string', 'opt', tag='y'), L('Z', 'float64', tag='z')], 'opt', tag='ab')])
    P['rconcat2'] = progs.Program('rconcat2', [G('A', [G('Bc', [L('X', 'int32', tag='x')], tag='bc')], 'opt', tag='a'), G('Ab', [G('C', [L('Y', 'bool', 'opt', tag='y')], 'opt', tag='c')], tag='ab')])
    # two sibling groups followed by further columns (the regenerator must skip the descendants of BOTH groups)
    P['rsiblings'] = progs.Program('rsiblings', [G('Home', [L('City', 'string', tag='city')], tag='home'), G('Work', [L('Title', 'string', tag='title'), L('Salary', 'float64', 'opt', tag='salary')], 'opt', tag='work'),
                                                 L('Age', 'int32', tag='age'), L('Note', 'string', 'opt', tag='note')])
    P['rsiblings2'] = progs.Program('rsiblings2', [G('Outer', [G('Ga', [L('X', 'int32', tag='x')], tag='ga'), G('Gb', [L('Y', 'int64', 'opt', tag='y')], 'opt', tag='gb'), L('Z', 'bool', tag='z')], 'opt', tag='outer'), L('Tail', 'string', tag='tail')])
    # column and group names that start with an underscore (strings.Title leaves them as they are)
    P['runderscore'] = progs.Program('runderscore', [L('Id', 'int64', tag='_id'), G('Meta', [L('Rev', 'int32', tag='rev'), L('Who', 'string', 'opt', tag='_who')], 'opt', tag='_meta'), L('Tail', 'string', tag='tail')])
    # names whose first letter is not ASCII (a byte-wise capitalisation would break them)
    P['runicode'] = progs.Program('runicode', [L('Etiquette', 'string', tag='\u00e9tiquette'), G('Uber', [L('Hoehe', 'float64', 'opt', tag='\u00e9l\u00e9vation'), L('Ok', 'bool', tag='ok')], 'opt', tag='\u00fcber'), L('Groesse', 'int64', tag='gr\u00f6\u00dfe')])
    return P


WRITER_MAIN = '''package main

import (
	"os"
%s
)

func must(err error) {
	if err != nil {
		panic(err)
	}
}

func main() {
	dir := os.Args[1]
	_ = dir
%s
}
'''


def main(tier, replay):
    c = Check('C15', 'translation_validation', tier)
    quick = tier == 'quick'
    P = programs(quick, c.seed)
    pgen = build_parquetgen(c)
    if pgen is None:
        c.finish('n/a')
    mod = make_scratch_module(c)
    infos = {}
    c05_shapes = {}
    for k in load_known():
        if k.get('property') == 'C05' and k.get('kind') == 'finding':
            for shp in k.get('shapes', []):
                c05_shapes[shp] = k
    for n, p in P.items():
        infos[n] = gen_program(c, mod, p, BASE_TEMPLATES, pgen)
        if not infos[n]['ok']:
            if SHAPE_CANON.get(n) in c05_shapes:
                # the generator already fails on the ORIGINAL struct of this shape: the C05 finding, not a C15 verdict
                k = c05_shapes[SHAPE_CANON[n]]
                c.known_hits['C05:' + k['group']] = 'parquetgen generator defect listed under C05 (%s): no writer can be generated for shapes such as %s' % (k['group'], SHAPE_CANON[n])
                continue
            c.inconclusive.append('program %s %s: %s' % (n, p.canon(), infos[n]['msg']))
    ok_names = [n for n in P if infos[n]['ok']]
    # ---- native orchestration (decides nothing): write a zero-row and a one-row file with every generated writer
    nmod = make_scratch_module(c, 'native')
    for n in ok_names:
        gen_program(c, nmod, P[n], [], pgen, harness=False)
    rc, out = sh(['go', 'build', './...'], cwd=nmod, timeout=900)
    if rc != 0:
        bad = set(re.findall(r'^# scratch/(\w+)', out, re.M))
        for b in bad:
            c.inconclusive.append('program %s %s does not build: %s' % (b, P[b].canon() if b in P else '', out[:300]))
        ok_names = [n for n in ok_names if n not in bad]
    md = os.path.join(nmod, 'cmd_writeall')
    os.makedirs(md, exist_ok=True)
    imports = '\n'.join('\t%s "scratch/%s"' % (n, n) for n in ok_names)
    body = []
    for n in ok_names:
        body.append('\t{ f, err := os.Create(dir + "/%s_1.parquet"); must(err); w, err := %s.NewParquetWriter(f); must(err); w.Add(%s.Rec{}); must(w.Write()); must(w.Close()); f.Close() }' % (n, n, n))
        body.append('\t{ f, err := os.Create(dir + "/%s_0.parquet"); must(err); w, err := %s.NewParquetWriter(f); must(err); must(w.Close()); f.Close() }' % (n, n))
    open(os.path.join(md, 'main.go'), 'w').write(WRITER_MAIN % (imports, '\n'.join(body)))
    fdir = os.path.join(c.scratch, 'files')
    os.makedirs(fdir, exist_ok=True)
    rc, out = sh(['go', 'run', './cmd_writeall', fdir], cwd=nmod, timeout=900)
    if rc != 0:
        c.inconclusive.append('native writer run failed: ' + out[-400:])
    # ---- regenerate structs from the files with parquetgen -parquet, compare structure, build pair packages
    jobs = []
    struct_viol = []
    regen = {}
    for n in ok_names:
        rn = n + '_re'
        rd = os.path.join(mod, rn)
        os.makedirs(rd, exist_ok=True)
        srcs = {}
        for k in ('1', '0'):
            f = os.path.join(fdir, '%s_%s.parquet' % (n, k))
            if not os.path.exists(f):
                continue
            # the output path already holds a LONGER struct file from an earlier run (regenerating over an existing file
            # must not leave any of it behind)
            open(os.path.join(rd, 's%s.go' % k), 'w').write('package %s\n\n' % rn + ''.join('type Stale%d struct {\n\tOld%d int64 `parquet:"old%d"`\n\tGone%d *string `parquet:"gone%d"`\n}\n\n' % (i, i, i, i, i) for i in range(40)))
            rc, out = sh([pgen, '-parquet', f, '-type', 'Rec', '-package', rn, '-struct-output', 's%s.go' % k, '-output', 'parquet%s.go.txt' % k], cwd=rd, timeout=120)
            sp = os.path.join(rd, 's%s.go' % k)
            if rc != 0 or not os.path.exists(sp):
                struct_viol.append((n, 'parquetgen -parquet failed on the %s-row file: %s' % (k, out.strip()[-200:])))
                continue
            srcs[k] = open(sp).read()
            os.rename(sp, sp + '.txt')
        if len(srcs) < 2:
            continue
        if srcs['0'] != srcs['1']:
            struct_viol.append((n, 'struct regenerated from the zero-row file differs from the one-row file'))
        types = progs.parse_struct_file(srcs['1'])
        if 'Rec' not in types:
            struct_viol.append((n, 'regenerated file has no Rec struct'))
            continue
        # a member or type the Go language does not export is ignored by the generator: its column would not be read back
        unexp = sorted({m for m in re.findall(r'^\s*(?:type\s+)?([^\s`]+)\s+(?:struct\s*\{|[\*\[\]\w]+\s*`parquet:)', srcs['1'], re.M) if not (m[0].isalpha() and m[0].isupper())})
        if unexp:
            struct_viol.append((n, 'regenerated struct has members or types that Go does not export (their columns are not read back): ' + ', '.join(unexp)))
            continue
        try:
            rp = progs.program_from_types(rn, types)
        except KeyError as e:
            struct_viol.append((n, 'regenerated struct refers to an undefined type %s' % e))
            continue
        diffs = progs.same_structure(P[n].kids, rp.kids)
        if diffs:
            struct_viol.append((n, 'regenerated struct differs: ' + '; '.join(diffs[:4])))
            continue
        # base_path for the pair builder: same positions
        def mark(a, b, pre):
            for x, y in zip(a, b):
                y.base_path = pre + [x.name]
                if x.kids is not None:
                    mark(x.kids, y.kids, y.base_path)
        mark(P[n].kids, rp.kids, [])
        regen[n] = rp
        # generate code for the regenerated struct exactly as FromParquet leaves it (struct file + parquet.go), plus our harness
        info = gen_program(c, mod, rp, BASE_TEMPLATES, pgen, pkgname=rn)
        # keep the struct text parquetgen wrote, not our re-rendering
        open(os.path.join(rd, 's.go'), 'w').write(srcs['1'])
        sh([pgen, '-input', 's.go', '-type', 'Rec', '-package', rn, '-output', 'parquet.go'], cwd=rd, timeout=60)
        infos[rn] = info
        if not info['ok']:
            struct_viol.append((n, 'code generation for the regenerated struct failed: ' + info['msg']))
            continue
        pdn = n + '_pair'
        pd = os.path.join(mod, pdn)
        os.makedirs(pd, exist_ok=True)
        open(os.path.join(pd, 'zz_verif_h0.go'), 'w').write(progs.pair_source(pdn, P[n], rp, n, rn))
        for i, t in enumerate(PAIR_SYM):
            txt = open(os.path.join(HARNESS, t)).read().replace('PKGNAME', pdn).replace('BASEPKG', n).replace('DECPKG', rn)
            fn = ('zz_verif_sym_%d.go' if t.endswith('_sym.go.tmpl') else 'zz_verif_t%d.go') % i
            open(os.path.join(pd, fn), 'w').write(txt)
        shutil.copy(intr_sym(pdn, c.scratch), os.path.join(pd, 'zz_verif_i.go'))
        write_pkg_manifest(pd, pdn, PAIR_SYM, {'BASEPKG': n, 'DECPKG': rn})
        infos[pdn] = {'pkg': 'scratch/' + pdn, 'dir': pd, 'name': pdn, 'ok': True, 'canon': P[n].canon()}
        stubs = []
        for pk in (n, rn):
            stubs += ['(*scratch/%s.stringStats).add' % pk, '(*scratch/%s.stringOptionalStats).add' % pk]
        k = len(jobs)
        jobs.append({'name': 'regen-%s %s' % (n, P[n].canon()), 'pkg': 'scratch/' + pdn, 'func': 'HarnessRegen', 'args': [1 if n == 'rwide' else 2, 1, k % 3, 1 + k % 2, 0], 'opt': {'fixed_hdr': True, 'stub': stubs}})
    if replay:
        replay_main(c, replay, infos, ['gpair_native.go.tmpl'])
    if jobs:
        j0 = [j for j in jobs if j['name'].startswith('regen-rwide')] or jobs[:1]
        jobs.append({'name': 'sens-unrelated', 'pkg': j0[0]['pkg'], 'func': 'HarnessRegen', 'args': [2, 1, 0, 1, 1], 'opt': dict(j0[0]['opt']), 'expect': 'exactly the written values'})
    out = run_program_jobs_batched(c, mod, infos, jobs, batch=180, native_templates=['gpair_native.go.tmpl'])
    # a shape that the C05 findings list names as a generator defect fails here for the same reason (the regenerated
    # struct has the same shape): report it as a known finding keyed by the canonical shape
    c05 = {}
    for k in load_known():
        if k.get('property') == 'C05' and k.get('kind') == 'finding':
            for shp in k.get('shapes', []):
                c05[shp] = k
    kept = []
    for (j, jr, ctx) in c.jobs:
        m = re.match(r'regen-(r\d+) ', j['name'])
        if m and SHAPE_CANON.get(m.group(1)) in c05 and (jr.get('violations') or jr.get('unsupported')):
            k = c05[SHAPE_CANON[m.group(1)]]
            c.known_hits['C05:' + k['group']] = 'parquetgen generator defect listed under C05 (%s) also breaks the regenerated reader, e.g. shape %s' % (k['group'], SHAPE_CANON[m.group(1)])
            jr = dict(jr)
            jr['violations'], jr['unsupported'] = [], {}
            ctx = dict(ctx)
            ctx['no_reach'] = True
        kept.append((j, jr, ctx))
    c.jobs = kept
    for n, why in struct_viol:
        v = {'label': 'regenerated struct has the same columns, nesting, optionality and types', 'kind': 'concrete', 'msg': why, 'notes': [P[n].canon()]}
        job = {'name': 'struct-%s %s' % (n, P[n].canon()), 'pkg': 'scratch/' + n, 'func': '-', 'args': []}
        k = c.match_known(job, v)
        if k is not None:
            c.known_hits[json.dumps(k['key'], sort_keys=True)] = k['what']
            continue
        if len(c.violations) < 5:
            os.makedirs(os.path.join(VERIF, 'replays'), exist_ok=True)
            body = {'property': 'C15', 'kind': 'structure', 'job': job['name'], 'label': v['label'], 'msg': why, 'notes': v['notes'], 'struct_source': P[n].struct_source(n), 'draws': []}
            rp = os.path.join(VERIF, 'replays', 'C15-%s.json' % hashlib.sha1(body['struct_source'].encode()).hexdigest()[:10])
            json.dump(body, open(rp, 'w'), indent=1)
            c.violations.append((job, v, rp))
    c.programs = len(P)
    c.extra['regenerated_ok'] = len(regen)
    c.extra['stale_output'] = 'every regeneration runs over an existing, longer struct-output file'
    c.bounds = {'note': 'the wide struct is run with one record, the others with two', 'programs': '%d non-repeated shapes (<= %d nodes, depth <= 3, unique group names, leaves rotating over int32,int64,float32,float64,bool,string, required and optional) + one wide hand-written struct' % (len(P) - 1, 3 if quick else 4),
                'records': '2 per program, every optional nil/non-nil combination, values symbolic', 'outside': 'structs.Struct / FromParquet / go/format run concretely per program (no symbolic input exists for them); unsigned types (documented as not preserved); repeated fields (excluded by the property)'}
    c.assumptions = [STUB_ASSUMPTIONS[k] for k in ('A1', 'A2', 'A3', 'A4', 'A6')] + ['the regenerated struct text is parsed by the check (regex over the emitted struct file) and compared with the catalogue description of the original']
    c.finish('one job per program: the original writer and the writer generated from the regenerated struct run on records built from the same symbolic values, traces proved equal; the original file is read by the regenerated reader and records proved equal; programs counts struct definitions; disagreements_checked counts obligations',
             'native: real writer produces a 0-row and a 1-row file, real parquetgen -parquet regenerates the struct (must agree for both files and match the original in columns, nesting, optionality, types); engine: cross-package pipeline original writer -> abstract file -> regenerated reader, plus trace equality of both writers')
