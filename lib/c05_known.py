#!/usr/bin/env python3
"""Build the C05 entries of known_findings.json from a verdict dump (VERIF_C05_DUMP of the exhaustive run).
Groups: verdict kind + normalised error class; each group lists its canonical shapes."""
import json, re, sys, collections
dump = json.load(open(sys.argv[1]))


def cls(kind, msg):
    m = msg
    if kind == 'wrong':
        return msg
    if kind == 'gen-fail':
        return 'go/format rejects the source parquetgen generated'
    m = re.sub(r'T[A-Z][A-Za-z0-9]*', 'T', m)
    m = re.sub(r'\bx\d*(\.[A-Za-z0-9]+)+', 'x.F', m)
    m = re.sub(r'struct\{.*', 'struct{…}', m)
    m = re.sub(r'(write|read)[A-Z][A-Za-z0-9]*', r'\1F', m)
    m = re.sub(r'\(parquet\.go:\d+\)', '', m)
    m = re.sub(r'\b[A-Z]\b', 'F', m)
    m = re.sub(r'\bG[A-Z]\b', 'F', m)
    m = re.sub(r'mismatched types \w+ and', 'mismatched types T and', m)
    m = re.sub(r'variable of type [^)]*', 'variable of type …', m)
    m = re.sub(r'gen-fail: gen-fail:.*', 'gen-fail: go/format rejects the generated source', m, flags=re.S)
    return m.strip()[:120]


groups = collections.OrderedDict()
for shape, (kind, msg) in sorted(dump.items(), key=lambda kv: (len(kv[0]), kv[0])):
    if kind in ('ok', 'not-run'):
        continue
    g = '%s: %s' % (kind, cls(kind, msg))
    groups.setdefault(g, {'verdict': kind, 'shapes': []})['shapes'].append(shape)
known = [k for k in json.load(open('/verif/known_findings.json')) if not (k.get('property') == 'C05' and k.get('kind') == 'finding')]
WHAT = {
    'wrong': 'generated code compiles but assemble(shred(r)) != r or the written file does not hold the records: silent data loss/misplacement',
    'type-error': 'generated code does not compile',
    'panic': 'generated code panics for some record structure',
    'gen-fail': 'parquetgen fails: go/format rejects the source it generated',
    'nondeterministic': 'two runs of parquetgen on the same input differ',
}
for g, v in groups.items():
    known.append({'property': 'C05', 'kind': 'finding', 'group': g, 'verdict': v['verdict'],
                  'what': WHAT[v['verdict']] + '; every listed shape contains a repeated or optional group whose handling in fields.Init/RepCases and the dremel write templates is wrong (DESIGN.md §14.3)',
                  'key': {'shape': 'listed in shapes'}, 'shapes': v['shapes']})
json.dump(known, open('/verif/known_findings.json', 'w'), indent=1)
print(len(groups), 'groups', sum(len(v['shapes']) for v in groups.values()), 'shapes')
for g, v in groups.items():
    print(len(v['shapes']), g, v['shapes'][:2])
