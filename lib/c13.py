"""C13 — output depends only on an instance's own history (history half; schedules are outside the claim)."""
from faultcommon import *


def main(tier, replay):
    c = Check('C13', 'model_checking', tier)
    quick = tier == 'quick'
    P = {k: v for k, v in c01.core_programs().items() if k in ('p1', 'p2', 'p3', 'p4', 'p5', 'flat24')}
    mod, infos = setup_programs(c, P, TEMPLATES)
    if replay:
        replay_main(c, replay, infos, NATIVE)
    jobs = []

    def J(name, prog, func, args, stale, expect=None, rev=False, stub=True):
        opt = {'pool_stale': stale, 'monitor_pool': True, 'monitor_globals': True, 'reverse_maps': rev}
        if stub:
            opt['stub'] = c02.nostats(prog)
        j = {'name': name, 'pkg': 'scratch/' + prog, 'func': func, 'args': args, 'opt': opt}
        if expect:
            j['expect'] = expect
        jobs.append(j)
    for n in P:
        for cd in (0, 1, 2):
            # writer: stale pooled buffers (one capacity per path), 2 batches x 2 records, page size 1 and 2
            for ps in (1, 2):
                J('writer-%s-c%d-ps%d' % (n, cd, ps), n, 'HarnessIsolation', [2, 2, 1, 1, cd, ps, 0], 1)
        if n in ('p1',):
            # capacity chosen independently per Get
            J('writer-%s-perget' % n, n, 'HarnessIsolation', [1, 1, 1, 1, 1, 1, 0], 2)
        # reader + writer with map iteration reversed, monitors on (whole pipeline, real statistics code)
        for rev in (False, True):
            J('pipeline-%s-maps-%s' % (n, 'reversed' if rev else 'forward'), n, 'HarnessPipeline', [0, 2, 1, 1, 1, 1, 0, 1, 0, 0], 1, rev=rev, stub=(n in ('p2', 'flat24')))
    # ---- another record type with the same column names in the same process (package-level caches keyed too coarsely)
    pgen = build_parquetgen(c)
    for n in ('p1', 'p2', 'p4'):
        an = n + 'alt'
        infos[an] = gen_program(c, mod, progs.alt_types(P[n], an), TEMPLATES, pgen)
        if not infos[an]['ok']:
            c.inconclusive.append('program %s: %s' % (an, infos[an]['msg']))
            continue
        open(os.path.join(infos[n]['dir'], 'zz_verif_cross.go'), 'w').write(open(os.path.join(HARNESS, 'gh_cross.go.tmpl')).read().replace('PKGNAME', n).replace('ALTPKG', an))
        for order in (1, 2):
            for cd in ((0, 1, 2) if n == 'p1' else (order % 3,)):
                J('crosstype-%s-o%d-c%d' % (n, order, cd), n, 'HarnessCrossType', [order, 1, cd, 1 + cd % 2], 0)
                jobs[-1]['opt'].update(pool_stale=0, monitor_pool=False, monitor_globals=False)
    # ---- two writers created from one option slice with spare capacity, more records than the page size
    for n in ('p1', 'p4'):
        for cd in (0, 1, 2):
            J('shared-options-%s-c%d' % (n, cd), n, 'HarnessSharedOptions', [5, 1, 1, cd, 2], 0)
            jobs[-1]['opt'].update(monitor_pool=False, monitor_globals=False, fixed_hdr=True)  # equal structs must get equal abstract lengths
    # ---- error paths: an instance whose sink fails at a symbolic call index, pool monitor on
    for n in ('p1', 'p4'):
        for cd in (0, 1, 2):
            J('faulty-instance-%s-c%d' % (n, cd), n, 'HarnessFaultIsolation', [3, 1, 1, cd, 2], 0)
    J('sens-stale', 'p1', 'HarnessIsolation', [1, 1, 1, 1, 0, 1, 1], 1, expect='independent of recycled buffer content')
    jobs[-1]['no_native'] = True  # the seeded fault lives in the symbolic branch of the harness (stale bytes do not exist natively)
    run_program_jobs(c, mod, infos, jobs, native_templates=NATIVE, race=True)  # native replays run under the race detector
    c.programs = len(P)
    mr = sum((jr.get('reach') or {}).get('map-range-over-2+-entries', 0) for j, jr, x in c.jobs)
    c.extra['map_ranges_over_two_or_more_entries_executed'] = mr
    c.extra['schedules'] = 'NOT explored symbolically: goroutine interleavings are outside this claim; race freedom is argued from (no access after Put) + (no write to memory reachable from package-level variables outside init) + A5. A monitor finding is confirmed natively by running separate instances on goroutines under the Go race detector (dynamic, not exhaustive)'
    c.bounds = {'other record types': 'for p1, p2, p4: a writer and a reader instance of a record type with the same column names and different physical types run first (or between two instances), then the C01 and C02 oracles on this type', 'shared options': 'two writers created from one option slice (len 2, cap 4), 5 and 6 records at page size 2, interleaved', 'error paths': 'an instance whose sink fails at any call index (3 records, page size 2, each codec) under the pool monitor; natively a healthy instance before and after it', 'workloads': '2 batches x 2 fixed-structure records with symbolic values, page size 1 and 2, each codec; whole pipeline with 2 records', 'pool pre-state': 'every buffer returned by either pool has capacity 0, 5 or 64 and arbitrary (symbolic) stale content',
                'outside': 'interleavings of goroutines (the schedules half of the property); pools handing one buffer to two owners (A5)'}
    c.assumptions = [STUB_ASSUMPTIONS[k] for k in ('A1', 'A3', 'A4', 'A5', 'A6')]
    c.finish('paths = capacity choices of the recycled buffers x page-size outcomes; stale bytes and record values symbolic; a path is non-trivial when at least one obligation went to the solver (a byte mentioning a stale variable triggers the 2-safety query; on the unchanged tree no output byte mentions one, which the run measures)',
             'generated Write methods, DoWrite x2, compress, ByteBuffer (from source), Footer executed from SSA with monitors: (1) 2-safety non-interference of every sink byte w.r.t. stale pool content, (2) no load/store through a buffer after Put, (3) no store to a package-level variable outside init, (4) map ranges in both orders')
