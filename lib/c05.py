"""C05 — parquetgen never emits silently wrong code for any documented struct shape."""
from vcommon import *
import progs, c01, c02, random, hashlib

TEMPLATES = c02.TEMPLATES
NATIVE = c02.NATIVE


POOL_SEED = 20261003


def shapes_for(tier, seed):
    """(name, shape, canon) list.  All shapes with <= 3 nodes are always run.  Larger shapes come from a fixed pool
    (all 4-node shapes + 400 five-node shapes drawn once with POOL_SEED) so that the known-findings list can name
    every shape a tier may run; quick samples 25 + 15 of the pool with VERIF_SEED, thorough runs the whole pool."""
    small = list(progs.grammar_shapes(3))
    four = [s for s in progs.grammar_shapes(4) if s[1] == 4]
    five_all = [s for s in progs.grammar_shapes(5) if s[1] == 5]
    pool5 = random.Random(POOL_SEED).sample(five_all, 400)
    rnd = random.Random(seed)
    out = [(s, n) for s, n in small]
    if os.environ.get('VERIF_C05_ALL'):
        out = list(progs.grammar_shapes(5))  # exhaustive5: every shape with <= 5 nodes (not registered)
    elif tier == 'quick':
        out += rnd.sample(four, 25) + rnd.sample(pool5, 15)
    else:
        out += four + pool5
    res = []
    for i, (s, n) in enumerate(out):
        res.append(('s%04d' % i, s, progs.shape_canon(s)))
    return res


def classify_msg(msg):
    m = msg
    m = re.sub(r'/tmp/[^ :]*/', '', m)
    m = re.sub(r':\d+:\d+', '', m)
    m = re.sub(r'\b[a-z]\d+\b', 'x', m)
    return m[:160]


def main(tier, replay):
    c = Check('C05', 'model_checking', tier)
    quick = tier == 'quick'
    shp = shapes_for(tier, c.seed)
    P = {}
    canon = {}
    nodes = {}
    for name, s, cn in shp:
        canon[name] = cn
        nodes[name] = cn.count('L') + cn.count('{') - 1
        # shapes with more than 3 nodes get fixed-width leaves only: their jobs run with EMPTY strings (string lengths
        # multiply the structure space), and a string leaf that the generated code loses would then be invisible
        P[name] = progs.shape_program(name, s) if nodes[name] <= 3 else progs.shape_program(name, s, rot=('int32', 'bool'))
    # the eight primitive types in every repetition: Flat24 and the per-type programs (all templates)
    core = {'flat24': progs.flat24()}
    core.update(progs.flat_types())
    for n, p in core.items():
        P[n] = p
        canon[n] = p.canon()
    # struct tags with other keys before the parquet key
    mt = progs.Program('multitag', [progs.leaf('Id', 'int64', tag='id'), progs.leaf('Name', 'string', 'opt', tag='full_name'),
                                    progs.group('Home', [progs.leaf('Street', 'string', tag='street_name'), progs.leaf('Zip', 'int32', 'opt', tag='zip')], 'opt', tag='home'),
                                    progs.leaf('Tags', 'string', 'rep', tag='tags')])
    mt.other_keys = True
    P['multitag'] = mt
    canon['multitag'] = mt.canon() + ' (json+db+parquet tags)'
    # bool-only struct: the smallest shape whose generated code must compile too
    P['boolonly'] = progs.Program('boolonly', [progs.leaf('X', 'bool', 'rep', tag='x')])
    canon['boolonly'] = '{[]bool}'
    mod, infos = setup_programs(c, P, TEMPLATES, determinism=True)
    if replay:
        body = json.load(open(replay))
        if body.get('kind') == 'compile':
            import c14
            ok, out = c14.compile_check(c, body['struct_source'], build_parquetgen(c))
            log(out[-2000:])
            log('REPRODUCED' if ok else 'NOT REPRODUCED')
            sys.exit(1 if ok else 0)
        replay_main(c, replay, infos, NATIVE)
    verdict = {}
    jobs = []
    for n in P:
        if not infos[n]['ok']:
            kind = 'nondeterministic' if 'nondeterministic' in infos[n]['msg'] else 'gen-fail'
            verdict[n] = (kind, classify_msg(infos[n]['msg']))
            continue
        stub = c02.nostats(n)
        wide = n == 'flat24'
        # shapes with <= 3 nodes: two structurally free records, strings <= 1 byte; larger shapes: one free record followed by a
        # fixed-structure one, empty strings (string lengths multiply the structure space without adding structure)
        small = n in nodes and nodes[n] <= 3
        jobs.append({'name': 'shred|%s|%s' % (n, canon[n]), 'pkg': 'scratch/' + n, 'func': 'HarnessShred',
                     'args': [0, 3, 0, 2, 1, 1, 3, 0] if wide else ([2, 0, 0, 2, 1, 1, 3, 0] if small else [1, 1, 0, 2, 0, 1, 3, 0]), 'opt': {'stub': stub, 'max_paths': 600000}})
        jobs.append({'name': 'file|%s|%s' % (n, canon[n]), 'pkg': 'scratch/' + n, 'func': 'HarnessFile',
                     'args': [0, 2, -1, 1, 1, len(n) % 3, 1, 0, 0] if wide else [1, 1, -1, 1, 1, len(n) % 3, 1, 0, 0], 'opt': {'stub': stub, 'mode_b': True}})
    jobs.append({'name': 'sens-striping', 'pkg': 'scratch/flat_int32', 'func': 'HarnessShred', 'args': [1, 0, 0, 1, 1, 0, 3, 1], 'expect': 'striping', 'opt': {}})
    out = run_program_jobs_batched(c, mod, infos, jobs, batch=250, native_templates=NATIVE)
    c.inconclusive = [r for r in c.inconclusive if not re.search(r'job (shred|file)\|', r)]
    load_err = out.get('load_errors') or {}
    for n in P:
        k = 'scratch/' + n
        if k in load_err and n not in verdict:
            verdict[n] = ('type-error', classify_msg(load_err[k][0]))
    # engine verdicts
    byprog = {}
    for j, jr, ctx in c.jobs:
        if '|' not in j['name']:
            continue
        n = j['name'].split('|')[1]
        byprog.setdefault(n, []).append((j, jr))
    for n, lst in byprog.items():
        if n in verdict:
            continue
        v = ('ok', '')
        for j, jr in lst:
            for vi in (jr.get('violations') or []):
                if vi['kind'] == 'panic' or 'panic' in (vi.get('msg') or '') or any('panic:' in x for x in (vi.get('notes') or [])):
                    v = ('panic', classify_msg(vi.get('msg') or vi['label']))
                elif vi['kind'] != 'unknown':
                    if v[0] != 'panic':
                        v = ('wrong', vi['label'])
        verdict[n] = v
    for n in P:
        verdict.setdefault(n, ('not-run', ''))
    counts = {}
    for n, (k, m) in verdict.items():
        counts[k] = counts.get(k, 0) + 1
    c.extra['verdicts'] = counts
    if os.environ.get('VERIF_C05_DUMP'):
        json.dump({canon[n]: list(verdict[n]) for n in P}, open(os.environ['VERIF_C05_DUMP'], 'w'), indent=1, sort_keys=True)
    # ---- compare with the known findings (keyed by canonical shape + verdict kind)
    known = {}
    for k in load_known():
        if k.get('property') == 'C05' and k.get('kind') == 'finding':
            for shape in k['shapes']:
                known[shape] = k
    c.jobs_backup = c.jobs
    keep = []
    for j, jr, ctx in c.jobs:
        # violations of known-bad programs are reported through the verdict comparison below, not individually
        if '|' in j['name']:
            n = j['name'].split('|')[1]
            cn = canon[n]
            if cn in known and verdict[n][0] == known[cn]['verdict']:
                jr = dict(jr)
                jr['violations'] = []
                jr['unsupported'] = {}
                ctx = dict(ctx)
                ctx['no_reach'] = True
        keep.append((j, jr, ctx))
    c.jobs = keep
    stale = 0
    for n in P:
        cn = canon[n]
        kind, msg = verdict[n]
        if cn in known:
            if kind == known[cn]['verdict']:
                c.known_hits[known[cn]['group']] = 'parquetgen: %s (%d shapes, e.g. %s): %s' % (known[cn]['group'], len(known[cn]['shapes']), known[cn]['shapes'][0], known[cn]['what'])
                continue
            if kind == 'ok':
                stale += 1   # fixed upstream of the list: fine, but say so
                continue
            # verdict changed kind (e.g. type-error -> wrong): silent wrongness is what the property is about
            v = {'label': 'verdict changed from %s to %s' % (known[cn]['verdict'], kind), 'kind': 'compile', 'msg': msg, 'notes': [cn]}
            report_program(c, n, cn, P[n], v)
            continue
        if kind in ('gen-fail', 'nondeterministic', 'type-error'):
            v = {'label': 'program generates deterministically and compiles', 'kind': 'compile', 'msg': kind + ': ' + msg, 'notes': [cn]}
            report_program(c, n, cn, P[n], v)
        # 'wrong' / 'panic' of programs not in the list are ordinary violations handled by triage (with native replay)
    c.extra['known_bad_now_ok'] = stale
    c.programs = len(P)
    c.bounds = {'grammar': 'struct = 1..2 members; member = leaf T|*T|[]T or group S|*S|[]S; depth <= 3; leaf types rotate int32/string/bool by position; plus flat24 and one struct per primitive type (all 24 template instantiations) and a bool-only struct',
                'programs': '%d (%s)' % (len(P), 'all shapes <= 3 nodes + seeded sample of 25 four-node and 15 five-node shapes' if quick else 'all shapes <= 4 nodes + seeded sample of 400 five-node shapes'),
                'per program': 'generation succeeds, two runs byte-identical, output type-checks; shred/assemble + striping on 2 free records (lists <= 2); one file with 2 records walked incl. schema tree',
                'outside': 'shapes beyond the bound; more than two members per struct; leaf types other than the three representatives except in flat24/flat_<type>'}
    c.assumptions = [STUB_ASSUMPTIONS[k] for k in ('A1', 'A3', 'A4', 'A5', 'A6')]
    c.finish('one verdict per enumerated program: ok | gen-fail | nondeterministic | type-error | panic | wrong; paths enumerate record structure per program; a program that is ok today and stops being ok, or a known-bad program whose verdict changes kind, is a violation',
             'the real parquetgen is run on every enumerated struct definition; the generated code is type-checked and executed from SSA under the C01(a), C03 and C02 oracles')


def report_program(c, n, cn, prog, v):
    import c14
    job = {'name': 'program-%s %s' % (n, cn), 'pkg': 'scratch/' + n, 'func': '-', 'args': []}
    if len(c.violations) >= 5:
        c.extra['further_counterexamples_not_replayed'] = c.extra.get('further_counterexamples_not_replayed', 0) + 1
        return
    src = prog.struct_source(n)
    ok, outp = c14.compile_check(c, src, build_parquetgen(c))
    if not ok and v['kind'] == 'compile' and 'verdict changed' not in v['label']:
        c.inconclusive.append('program %s %s failed in the engine front end but builds natively: %s' % (n, cn, v['msg']))
        return
    os.makedirs(os.path.join(VERIF, 'replays'), exist_ok=True)
    body = {'property': 'C05', 'kind': 'compile', 'job': job['name'], 'label': v['label'], 'msg': v['msg'], 'notes': v['notes'], 'struct_source': src, 'draws': []}
    rp = os.path.join(VERIF, 'replays', 'C05-%s.json' % hashlib.sha1(src.encode()).hexdigest()[:10])
    json.dump(body, open(rp, 'w'), indent=1)
    c.violations.append((job, v, rp))
