"""C18 — files outside the supported subset are refused, not misread."""
from faultcommon import *


def main(tier, replay):
    c = Check('C18', 'model_checking', tier)
    quick = tier == 'quick'
    P = {k: v for k, v in c01.core_programs().items() if k in ('p1', 'p2', 'p4', 'p3')}
    mod, infos = setup_programs(c, P, TEMPLATES)
    if replay:
        replay_main(c, replay, infos, NATIVE)
    jobs = []

    def J(name, prog, args, expect=None):
        j = {'name': name, 'pkg': 'scratch/' + prog, 'func': 'HarnessUnsupported', 'args': args, 'opt': {'stub': c02.nostats(prog)}}
        if expect:
            j['expect'] = expect
        jobs.append(j)
    kinds = {0: 'pagetype', 1: 'encoding', 2: 'deflevel-encoding', 3: 'replevel-encoding', 4: 'codec'}
    for n in P:
        for k, kn in kinds.items():
            for cd in ((0,) if quick and n != 'p4' else (0, 1, 2)):
                # 2 row groups x 2 records, page size 1: first/middle/last pages and both row groups are candidates
                J('%s-%s-c%d' % (kn, n, cd), n, [k, 2, 2, 1, 1, cd, 1, 0])
    J('sens-refused', 'p1', [1, 2, 1, 1, 1, 0, 1, 1], expect='no row of the row group')
    run_program_jobs(c, mod, infos, jobs, native_templates=NATIVE)
    c.programs = len(P)
    c.bounds = {'altered feature': 'page type in {INDEX, DICTIONARY, DATA_PAGE_V2 with their headers} or a free int32 outside the enum; value encoding a free int32 != PLAIN; definition/repetition level encoding a free int32 != RLE on columns that have such levels; codec a free int32 outside {0,1,2}',
                'position': 'any page header of any column in either row group / any column of any row group (Choose over all)', 'files': '2 row groups x 2 records, page size 1',
                'outside': 'two unsupported features at once; page kinds the thrift IDL does not define'}
    c.assumptions = [STUB_ASSUMPTIONS[k] for k in ('A1', 'A2', 'A3', 'A4', 'A6')] + ['the altered file is valid apart from the altered field (the decode stub returns the altered struct at the header position)']
    c.finish('paths = position of the altered header/column x kind of alteration; the unsupported value itself is a symbolic int32 constrained only to be unsupported; a path is non-trivial when at least one obligation went to the solver',
             'whole generated reader executed from SSA; oracle: no panic, (constructor error or Error() != nil after iteration), and no row of the row group containing the unsupported chunk is delivered')
