"""C02 — every written file is structurally valid Parquet with a truthful footer."""
from vcommon import *
import progs, c01, random

TEMPLATES = ['gsupport.go.tmpl', 'gh_roundtrip.go.tmpl', 'gh_walk.go.tmpl', 'gwalk_sym.go.tmpl']
NATIVE = ['gwalk_native.go.tmpl']


def programs(quick, seed):
    P = c01.core_programs()
    P.update(progs.nested_specials())
    shapes = [(s, n) for s, n in progs.grammar_shapes(3)]
    rnd = random.Random(seed)
    if quick:
        shapes = rnd.sample(shapes, 30)
    G = {}
    for i, (s, n) in enumerate(shapes):
        two_groups = sum(1 for m in s if m[0] == 'G') >= 2 or any(m[0] == 'G' and any(x[0] == 'G' for x in m[2]) for m in s)
        G['g%03d' % i] = progs.shape_program('g%03d' % i, s, same_names=two_groups and i % 2 == 0)
    return P, G


def nostats(n):
    pk = 'scratch/' + n
    return ['(*%s.stringStats).add' % pk, '(*%s.stringOptionalStats).add' % pk]


def main(tier, replay):
    c = Check('C02', 'model_checking', tier)
    quick = tier == 'quick'
    P, G = programs(quick, c.seed)
    allp = dict(P)
    allp.update(G)
    mod, infos = setup_programs(c, allp, TEMPLATES)
    if replay:
        replay_main(c, replay, infos, NATIVE)
    for n in P:
        if not infos[n]['ok']:
            c.inconclusive.append('core program %s: %s' % (n, infos[n]['msg']))
    jobs = []

    def J(name, prog, args, modeb, expect=None, stats=False):
        opt = {'mode_b': bool(modeb)}
        if not stats:
            opt['stub'] = nostats(prog)
        j = {'name': name, 'pkg': 'scratch/' + prog, 'func': 'HarnessFile', 'args': args, 'opt': opt}
        if expect:
            j['expect'] = expect
        jobs.append(j)
    wide = ('person', 'document', 'flat24')
    for i, n in enumerate(P):
        for cd in (0, 1, 2):
            if quick and (i + cd) % 3 != 0 and n not in ('p1', 'p2', 'p4'):
                continue
            if n in wide:
                J('core-%s-2f-B-c%d' % (n, cd), n, [0, 2, -1, 1, 1, cd, 1, 0, 0], True)
            else:
                J('core-%s-1n1f-B-c%d' % (n, cd), n, [1, 1, -1, 1, 1, cd, 1, 0, 0], True)
                if not quick:
                    J('core-%s-2n1f-B-c%d' % (n, cd), n, [2, 1, -1, 1, 1, cd, 1, 0, 0], True)
        # concrete lengths (mode A) and real statistics code once per program
        J('core-%s-3f-A' % n, n, [0, 3, -1, 1, 1, i % 3, 1, 0, 0], False, stats=n not in wide and 'string' not in n and n != 'p2')
    for n in ('flat_int32', 'flat_bool', 'flat_string', 'p4'):
        J('pages-%s-k9-B' % n, n, [0, 9, -1, 1, 1, 1, 0, 0, 0], True)
        J('pages-%s-k17-ps8-A' % n, n, [0, 17, 1, 1, 1, 0, 0, 8, 0], False)
    J('sens-content', 'p1', [0, 2, 1, 1, 1, 0, 0, 0, 1], True, expect='values stored in the pages')
    gen_bad = 0
    for i, n in enumerate(G):
        if not infos[n]['ok']:
            gen_bad += 1
            continue
        J('gram-%s-1n1f-B' % n, n, [1, 1, -1, 1, 1, i % 3, 1, 0, 0], True)
    out = run_program_jobs_batched(c, mod, infos, jobs, batch=200, native_templates=NATIVE, record=8 if not quick else 0)
    bad_compile = sorted({k.split('/')[-1] for k in (out.get('load_errors') or {}) if k.startswith('scratch/g')})
    c.inconclusive = [r for r in c.inconclusive if not re.search(r'job gram-', r)]
    for k in (out.get('load_errors') or {}):
        if k.startswith('scratch/') and not k.startswith('scratch/g'):
            c.inconclusive.append('core package %s does not type-check: %s' % (k, out['load_errors'][k][:2]))
    c.programs = len(P) + len(G) - gen_bad - len(bad_compile)
    c.extra['grammar_programs_not_generated_or_not_compiling'] = {'count': gen_bad + len(bad_compile), 'note': 'counted by C05, skipped here'}
    c.bounds = {'records': '1 free + 1 fixed-structure record (2+1 thorough), lists <= 1; page jobs: 9 and 17 fixed-structure records',
                'lengths': 'mode B: every thrift blob 1..2^20 bytes and every compressed payload 1..MaxEncodedLen, all symbolic; mode A: small concrete lengths',
                'page size': 'symbolic >= 1 (or 8)', 'codecs': [0, 1, 2],
                'programs': 'core catalogue + nested/same-named specials (%d) + %d grammar shapes (<= 3 nodes)' % (len(P), len(G)),
                'outside': 'thrift byte encoding of the structs (A1); statistics content (C12); files >= 2^30 bytes; row_group.total_byte_size is accepted as either the compressed or the uncompressed sum'}
    c.assumptions = [STUB_ASSUMPTIONS[k] for k in ('A1', 'A3', 'A4', 'A5', 'A6')] + ['the walk is written from the parquet-format text and the Dremel paper; the expected schema comes from the catalogue description of the struct']
    c.finish('one job per (program, bounds, codec, mode); paths enumerate record structure, batch partitions and page-size outcomes; header, footer and compressed-payload lengths are symbolic bit-vectors in mode B so every offset/size obligation is decided for all lengths; a path is non-trivial when at least one obligation went to the solver',
             'generated writer + parquet.Metadata (WritePageHeader, updateRowGroup, updateColumnChunk, Footer, schema.schema) + DoWrite/compress/writeLevels executed from SSA; the sink records one segment per Write call; an independent walk checks magic, footer length, offsets, sizes, counts, page layout (levels decoded by a spec RLE decoder, PLAIN values decoded and compared with the reference striping), page record limits, row groups and the schema tree')
