"""C08 — reading does not depend on how the source fragments its reads."""
from faultcommon import *


def main(tier, replay):
    c = Check('C08', 'model_checking', tier)
    quick = tier == 'quick'
    P = {k: v for k, v in c01.core_programs().items() if k in ('p1', 'p2', 'p3', 'p4')}
    mod, infos = setup_programs(c, P, TEMPLATES)
    if replay:
        replay_main(c, replay, infos, NATIVE)
    jobs = []

    def J(name, prog, args, expect=None):
        j = {'name': name, 'pkg': 'scratch/' + prog, 'func': 'HarnessPipeline', 'args': args, 'opt': {'stub': c02.nostats(prog)}}
        if expect:
            j['expect'] = expect
        jobs.append(j)
    # HarnessPipeline(n1, n2, fs, maxList, strLen, codec, frag, batchMode, psArg, fault)
    # frag: 3 one byte per Read; 6 every multi-byte Read returns half; 4 exactly one multi-byte Read (symbolic index) is short by any
    # count; 5 two of them; 1 every Read any count; +10: the last bytes arrive together with io.EOF
    for n in P:
        for cd in (0, 1, 2):
            for ps in (1, 2):
                J('byte-%s-c%d-ps%d' % (n, cd, ps), n, [0, 2, 1, 1, 1, cd, 3, 0, ps, 0])
                J('byte-eof-%s-c%d-ps%d' % (n, cd, ps), n, [0, 2, 1, 1, 1, cd, 13, 0, ps, 0])
                J('half-%s-c%d-ps%d' % (n, cd, ps), n, [0, 2, 2, 1, 1, cd, 6, 0, ps, 0])
                J('one-short-%s-c%d-ps%d' % (n, cd, ps), n, [0, 2, 1, 1, 2, cd, 4, 0, ps, 0])
            J('one-short-eof-%s-c%d' % (n, cd), n, [0, 3, 2, 1, 1, cd, 14, 0, 2, 0])
            J('two-short-%s-c%d' % (n, cd), n, [0, 1, 1, 1, 1, cd, 5, 0, 1, 0])
            if not quick:
                J('two-short-2rec-%s-c%d' % (n, cd), n, [0, 2, 1, 1, 1, cd, 5, 0, 1, 0])
                J('one-short-free-%s-c%d' % (n, cd), n, [1, 1, -1, 1, 1, cd, 4, 1, 0, 0])
    # long thrift structs: a footer of 300 bytes (the 4-byte length field has a non-zero second byte) and headers of 300 bytes
    for n in ('p1', 'p4'):
        for fr in (3, 6, 4):
            # a row group per record: the real footer of the native replay is then longer than 256 bytes too
            J('long-headers-frag%d-%s' % (fr, n), n, [0, 4, 1, 1, 1, 0, fr, 2, 1, 0])
            jobs[-1]['opt']['hdr_len'] = 300
    J('sens-rows', 'p1', [0, 2, 1, 1, 1, 0, 3, 0, 1, 1], expect='Rows')
    run_program_jobs(c, mod, infos, jobs, native_templates=NATIVE)
    c.programs = len(P)
    c.bounds = {'fragmentation': 'one byte per Read; the same with the last byte delivered together with io.EOF; every multi-byte Read returns ceil(len/2); exactly ONE multi-byte Read (symbolic call index, so every call is covered) is short by every count 1..len-1; exactly TWO such Reads (every pair of calls, every pair of counts) on one-record files',
                'header lengths': 'thrift headers/footers of 2-4 bytes, and of 300 bytes in the long-headers jobs', 'files': '1-2 records of fixed structure, symbolic values, one row group, page size 1 and 2, each codec; page payloads <= ~20 bytes',
                'outside': 'three or more independently short reads with arbitrary counts in one run (beyond the byte-wise and halving patterns); fragmentation inside thrift/snappy/gzip internals (A2: thrift headers are read byte-wise through the source by the stub)'}
    c.assumptions = [STUB_ASSUMPTIONS[k] for k in ('A1', 'A2', 'A3', 'A4', 'A6')]
    c.finish('paths = (index of the short Read call(s)) x (short count(s)) for the symbolic-index modes, one path for the deterministic patterns; a path is non-trivial when at least one obligation went to the solver',
             'whole generated reader + pageData, getMetaDataSize, readCounter, DoRead byte accounting executed from SSA on a source that fragments its reads; oracle: same records, Rows(), Next() count and Error()==nil as with an unfragmented source')
