#!/usr/bin/env python3
"""Maintain MANIFEST.json: `manifest_tool.py sync` keeps not_applicable current:
every property that has no check gets an entry (C11 keeps its real reason)."""
import json, sys
M = '/verif/MANIFEST.json'
m = json.load(open(M))
ids = [json.loads(l)['id'] for l in open('/verif/properties.jsonl')]
claimed = {c['property_id'] for c in m['checks']}
keep = {n['property_id']: n for n in m.get('not_applicable', []) if not n['reason'].startswith('PENDING')}
na = []
for i in ids:
    if i in claimed:
        continue
    if i in keep:
        na.append(keep[i])
    else:
        na.append({'property_id': i, 'reason': 'PENDING: the check for this property is not built yet in this session (planned in DESIGN.md §6); nothing is claimed for it'})
m['not_applicable'] = na
m['engines'][0]['serves_properties'] = sorted(claimed)
json.dump(m, open(M, 'w'), indent=1)
print('claimed', sorted(claimed), 'n/a', [n['property_id'] for n in na])
