#!/usr/bin/env python3
"""seedregress.py [seed-id-regex] : re-run, for every stored seed, the checks its meta.json names under caught_by
(quick tier) and report which still catch it.  Applies each patch to /repo and undoes it (seedtool.run)."""
import json, os, re, subprocess, sys, time
pat = re.compile(sys.argv[1]) if len(sys.argv) > 1 else None
root = '/verif/seeded'
summary = {}
for sid in sorted(os.listdir(root)):
    if pat and not pat.search(sid):
        continue
    mp = os.path.join(root, sid, 'meta.json')
    if not os.path.exists(mp):
        print(sid, 'NO META'); continue
    checks = list(json.load(open(mp)).get('caught_by', {}).keys())
    if os.environ.get('SEED_PRIMARY_ONLY'):
        own = [c for c in checks if c == sid.split('-')[0]]
        checks = (own or checks)[:1]
    t = time.time()
    p = subprocess.run(['python3', '/verif/lib/seedtool.py', 'run', sid] + checks, stdout=subprocess.PIPE, stderr=subprocess.STDOUT, text=True)
    cr = json.load(open(os.path.join(root, sid, 'check_results.json')))
    res = {c: cr.get(c, {}).get('rc') for c in checks}
    summary[sid] = res
    flag = 'OK ' if all(v == 1 for v in res.values()) else 'MISS'
    print(flag, sid, res, '%ds' % (time.time() - t), flush=True)
    subprocess.run(['git', '-C', '/repo', 'checkout', '--', '.'])
json.dump(summary, open('/verif/seeded/regression.json', 'w'), indent=1)
bad = {k: v for k, v in summary.items() if not all(x == 1 for x in v.values())}
print('seeds', len(summary), 'not caught by every named check:', bad)
