"""C07 — level streams are valid RLE/bit-packed hybrid; encode and decode are inverses."""
from vcommon import *

PKG = MODPATH + '/internal/rle'
ROOT = MODPATH


def main(tier, replay):
    c = Check('C07', 'model_checking', tier)
    ov, ctx = repo_overlay(c, 'internal/rle', 'rle', [os.path.join(HARNESS, 'c07_rle.go')])
    ov2, ctx2 = repo_overlay(c, '.', 'parquet', [os.path.join(HARNESS, 'c07_levels.go')])
    if replay:
        body = json.load(open(replay))
        ok, out = c.native_replay(replay, ctx2 if body['pkg'] == ROOT else ctx)
        log(out[-3000:])
        log('REPRODUCED' if ok else 'NOT REPRODUCED')
        sys.exit(1 if ok else 0)
    quick = tier == 'quick'
    jobs = []
    # ---- encoder, exhaustive over equality patterns up to N
    nmax = {1: 10, 2: 10, 3: 9, 4: 9} if quick else {1: 16, 2: 15, 3: 14, 4: 14}
    for w in (1, 2, 3, 4):
        for n in range(0, nmax[w] + 1):
            jobs.append({'name': 'enc-w%d-n%d' % (w, n), 'pkg': PKG, 'func': 'HarnessRLEEnc', 'args': [w, n, 0]})
        jobs.append({'name': 'sens-enc-pad-w%d' % w, 'pkg': PKG, 'func': 'HarnessRLEEnc', 'args': [w, 5, 1], 'expect': 'padding'})
        jobs.append({'name': 'sens-enc-val-w%d' % w, 'pkg': PKG, 'func': 'HarnessRLEEnc', 'args': [w, 9, 2], 'expect': 'spec decoder returns'})
    # ---- structured families around the 8-value, 63-group (504) and LEB128 boundaries
    fams = []
    for k in list(range(1, 18)) + list(range(503, 522)) + [1007, 1008, 1009]:
        fams.append(('noise%d' % k, [1, k, 0, 0, 0, 0, 0, 0]))
    for r in (7, 8, 9, 63, 64, 65, 127, 128, 129, 8191, 8192, 8193):
        fams.append(('run%d' % r, [2, r, 0, 0, 0, 0, 0, 0]))
    for a in (0, 1, 7, 8, 9, 503, 504, 505):
        for r in (7, 8, 9, 64):
            for b in (0, 1, 8):
                fams.append(('noise%d-run%d-noise%d' % (a, r, b), [1, a, 2, r, 1, b, 0, 0]))
    for (r1, r2, r3) in ((8, 8, 8), (9, 64, 7), (1, 8, 1), (7, 9, 128), (64, 1, 64), (3, 3, 3)):
        fams.append(('run%d-run%d-run%d' % (r1, r2, r3), [2, r1, 2, r2, 2, r3, 0, 0]))
    fams.append(('run8-noise504-run8-noise9', [2, 8, 1, 504, 2, 8, 1, 9]))
    fams.append(('noise496-run8-noise8-run65', [1, 496, 2, 8, 1, 8, 2, 65]))
    for w in (1, 2, 3, 4):
        for name, a in fams:
            jobs.append({'name': 'fam-w%d-%s' % (w, name), 'pkg': PKG, 'func': 'HarnessRLEFamily', 'args': [w] + a})
    # ---- decoder on foreign streams
    decs = [(2, 40, 64, (1, 2, 63)), (2, 9, 128, (3, 64, 65)), (2, 9, 8192, (128, 1, 2)), (3, 9, 63, (1, 2, 3))]
    if not quick:
        decs += [(3, 40, 127, (1, 63, 64)), (4, 9, 64, (1, 2, 3)), (3, 20, 8192, (65, 128, 2))]
    for w in (1, 2, 3, 4):
        for (k, mc, big, gs) in decs:
            jobs.append({'name': 'dec-w%d-k%d-c%d-big%d-g%s' % (w, k, mc, big, '_'.join(map(str, gs))), 'pkg': PKG, 'func': 'HarnessRLEDec',
                         'args': [w, k, mc, big, gs[0], gs[1], gs[2], 0]})
        jobs.append({'name': 'sens-dec-w%d' % w, 'pkg': PKG, 'func': 'HarnessRLEDec', 'args': [w, 1, 3, 0, 1, 2, 0, 1], 'expect': 'values equal'})
    jobs.append({'name': 'vacuity-twin', 'pkg': PKG, 'func': 'HarnessRLEVacuity', 'args': [2], 'expect': 'vacuity'})
    c.engine(REPO, [PKG], ov, jobs, ctx=ctx, record=12 if not quick else 0)

    # ---- engine vs native build on concrete pseudo-random sequences (observations: encoder bytes, decoded values)
    c1 = dict(ctx, dir=REPO, overlay=ov)
    for w in (1, 2, 3, 4):
        differential(c, {'name': 'enc-w%d-n40' % w, 'pkg': PKG, 'func': 'HarnessRLEEnc', 'args': [w, 40, 0], 'opt': {'concrete_u8_max': (1 << w) - 1}}, c1, runs=150 if quick else 600)
        differential(c, {'name': 'dec-w%d' % w, 'pkg': PKG, 'func': 'HarnessRLEDec', 'args': [w, 3, 40, 64, 1, 2, 63, 0]}, c1, runs=60 if quick else 200)
    # ---- glue in package parquet
    jobs2 = []
    for w in (1, 2, 3, 4):
        for n in ((0, 1, 7, 8, 9) if quick else range(0, 12)):
            jobs2.append({'name': 'levels-w%d-n%d' % (w, n), 'pkg': ROOT, 'func': 'HarnessLevels', 'args': [w, n, 0]})
    jobs2.append({'name': 'sens-levels', 'pkg': ROOT, 'func': 'HarnessLevels', 'args': [2, 3, 1], 'expect': 'padding'})
    c.engine(REPO, [ROOT], ov2, jobs2, ctx=ctx2)

    c.bounds = {'encoder_exhaustive_length': nmax, 'widths': [1, 2, 3, 4],
                'families': '%d run-structured sequences per width (noise(k), run(r), noise·run·noise, run·run·run, mixed) with symbolic values; lengths up to 8193' % len(fams),
                'decoder': 'foreign streams of k runs: %s (k, max symbolic RLE count, constant big count, bit-packed group counts)' % decs,
                'outside': 'free sequences longer than the exhaustive bound that are not in a family; RLE counts above 8193; more than %d runs per foreign stream; width 0 and widths > 4; bit-packed runs of 0 groups' % max(d[0] for d in decs)}
    c.assumptions = [STUB_ASSUMPTIONS['A6'], 'bytes.Reader, bytes.NewReader run from standard-library source; bitpack.Pack/Unpack run from source (decided separately by C17)']
    c.finish('jobs = (width, length) for the exhaustive encoder part — paths enumerate every equality pattern of neighbouring levels (2^n), values symbolic; one job per family member; decoder paths enumerate run kinds/counts/group counts. A path is non-trivial when at least one obligation went to the solver',
             'rle.New/Write/Bytes/writeOrAppendBitPackedRun/endPreviousBitPackedRun/writeRLERun/leb128, writeBuffer.*, bitpack.Pack → reference hybrid decoder written from the spec; rle.Read/readLEB128/readRLE/readRLEBitPacked/bitpack.Unpack on encoder output and on foreign streams; writeLevels/readLevels glue')
