"""C01 — write-then-read returns exactly the records that were added."""
from vcommon import *
import progs

TEMPLATES = ['gsupport.go.tmpl', 'gh_roundtrip.go.tmpl']


def core_programs():
    P = {}
    P.update(progs.flat_types())
    P.update(progs.minis())
    P.update(progs.embeds())
    P['flat24'] = progs.flat24()
    P['person'] = progs.person()
    P['document'] = progs.dremel_document()
    # optional numeric leaves under a repeated group (first member required: a shape the generator handles)
    P['repopt'] = progs.Program('repopt', [progs.leaf('Id', 'int64', tag='id'), progs.group('Friends', [progs.leaf('Name', 'int32', tag='name'), progs.leaf('Age', 'int32', 'opt', tag='age'), progs.leaf('Score', 'float64', 'opt', tag='score')], 'rep', tag='friends')])
    return P


def main(tier, replay):
    c = Check('C01', 'model_checking', tier)
    quick = tier == 'quick'
    pgen = build_parquetgen(c)
    if pgen is None:
        c.finish('n/a')
    mod = make_scratch_module(c)
    P = core_programs()
    infos = {}
    for n, p in P.items():
        infos[n] = gen_program(c, mod, p, TEMPLATES, pgen)
        if not infos[n]['ok']:
            c.inconclusive.append('core program %s: %s' % (n, infos[n]['msg']))
    if replay:
        body = json.load(open(replay))
        name = body['pkg'].split('/')[-1]
        ok, out = c.native_replay(replay, scratch_ctx(infos[name]))
        log(out[-3000:])
        log('REPRODUCED' if ok else 'NOT REPRODUCED')
        sys.exit(1 if ok else 0)
    jobs = []

    def has_strings(n):
        return any(lf.typ == 'string' for _, lf, _ in P[n].columns())

    def nostats(n):
        # the string statistics accumulators fork on every comparison (min/max are strings of
        # different lengths); they do not influence what is read back and are decided by C12
        pk = 'scratch/' + n
        return ['(*%s.stringStats).add' % pk, '(*%s.stringOptionalStats).add' % pk] if has_strings(n) else []

    def J(name, prog, func, args, expect=None, stub=None):
        j = {'name': name, 'pkg': 'scratch/' + prog, 'func': func, 'args': args}
        if expect:
            j['expect'] = expect
        if stub:
            j['opt'] = {'stub': stub}
        jobs.append(j)
    ML = 2 if quick else 3
    # (a) shred/assemble inverse, with mutation after Add
    for n in P:
        if n in ('flat24',):
            J('a-shred-%s-fixed3' % n, n, 'HarnessShred', [0, 3, 0, 2, 1, 1, 2, 0], stub=nostats(n))
        elif n in ('person', 'document'):
            # string lengths multiply the structure space: structure jobs use empty strings, a smaller job uses 1-byte strings
            ml = (1 if n == 'person' else 2) if quick else 2
            J('a-shred-%s-1n1f' % n, n, 'HarnessShred', [1, 1, 0, ml, 0, 1, 2, 0], stub=nostats(n))
            J('a-shred-%s-1f1n' % n, n, 'HarnessShred', [1, 1, 1, ml, 0, 1, 2, 0], stub=nostats(n))
            J('a-shred-%s-1n-str' % n, n, 'HarnessShred', [1, 0, 0, 1, 1, 1, 2, 0], stub=nostats(n))
        else:
            J('a-shred-%s-2n' % n, n, 'HarnessShred', [2, 0, 0, ML, 1, 1, 2, 0], stub=nostats(n))
            J('a-shred-%s-1n-stats' % n, n, 'HarnessShred', [1, 0, 0, 2, 3, 1, 2, 0])
            if not quick:
                J('a-shred-%s-2n1f' % n, n, 'HarnessShred', [2, 1, 0, 2, 1, 1, 2, 0], stub=nostats(n))
    J('sens-a-assemble', 'p4', 'HarnessShred', [1, 0, 0, 1, 1, 0, 2, 2], expect='assemble')
    # (b) column chunks per field category and type: many values, symbolic page size
    for i, t in enumerate(progs.PRIMS):
        n = 'flat_' + t
        codecs = [i % 3] if quick else [0, 1, 2]
        sl = 10 if t == 'string' else 1
        for cd in codecs:
            J('b-chunk-%s-k9-c%d' % (n, cd), n, 'HarnessPipeline', [0, 9, -1, 1, sl, cd, 0, 0, 0, 0], stub=nostats(n))
        if t in ('bool', 'int32', 'string') or not quick:
            J('b-chunk-%s-k17' % n, n, 'HarnessPipeline', [0, 17, -1, 1, 1, (i + 1) % 3, 0, 0, 0, 0], stub=nostats(n))
            J('b-chunk-%s-k17-ps8' % n, n, 'HarnessPipeline', [0, 17, 1, 1, 1, 0, 0, 0, 8, 0], stub=nostats(n))
    # one page of 520 records with alternating nil/non-nil structure: level streams of 65 bit-packed groups (the 63-group limit of a run header)
    for n in ('flat_int32', 'flat_bool'):
        J('b-chunk-%s-k520-alternating' % n, n, 'HarnessPipeline', [0, 520, -2, 1, 1, 0, 0, 0, 1000, 0], stub=nostats(n))
        jobs[-1].setdefault('opt', {})['max_steps'] = 80000000
    # one page of 8200 records of one structure: every level stream is ONE RLE run of 8200 (a three-byte run header)
    J('b-chunk-flat_int64-k8200-run', 'flat_int64', 'HarnessPipeline', [0, 8200, 1, 1, 1, 0, 0, 0, 10000, 0],
      stub=nostats('flat_int64') + ['(*scratch/flat_int64.int64stats).add', '(*scratch/flat_int64.int64optionalStats).add'])
    jobs[-1].setdefault('opt', {}).update(max_steps=600000000, max_alloc=400000)
    # long, highly compressible strings: the value is longer than its whole compressed column chunk (codec stubs shrink by 16)
    for n in ('p2', 'flat_string'):
        for cd in (1, 2):
            J('b-compressible-%s-c%d' % (n, cd), n, 'HarnessCompressible', [cd, 300])
            jobs[-1].setdefault('opt', {}).update(compress_div=16, max_alloc=1 << 17)
    # (c) whole pipeline on the minis (real statistics code included)
    for n in ('p1', 'p2', 'p3', 'p4', 'p5'):
        for cd in (0, 1, 2):
            if quick:
                J('c-pipe-%s-1n1f-c%d' % (n, cd), n, 'HarnessPipeline', [1, 1, -1, 1, 1, cd, 0, 1, 0, 0], stub=nostats(n))
                J('c-pipe-%s-1n-stats-c%d' % (n, cd), n, 'HarnessPipeline', [1, 0, -1, 2, 2, cd, 0, 1, 0, 0])
            else:
                J('c-pipe-%s-2n1f-c%d' % (n, cd), n, 'HarnessPipeline', [2, 1, -1, 1, 1, cd, 0, 1, 0, 0], stub=nostats(n))
                J('c-pipe-%s-1n1f-c%d' % (n, cd), n, 'HarnessPipeline', [1, 1, -1, 2, 2, cd, 0, 1, 0, 0])
        J('c-pipe-%s-3f-batches' % n, n, 'HarnessPipeline', [0, 3, -1, 1, 1, 0, 0, 1, 0, 0], stub=nostats(n))
    for n in ('emb1', 'emb2', 'emb3', 'person', 'document', 'flat24'):
        J('c-pipe-%s-2f' % n, n, 'HarnessPipeline', [0, 2, -1, 1, 1, 1, 0, 1, 0, 0], stub=nostats(n))
    J('sens-c-rows', 'p1', 'HarnessPipeline', [0, 2, 1, 1, 1, 0, 0, 0, 0, 1], expect='Rows')
    J('vacuity-twin', 'p1', 'HarnessVacuity', [], expect='vacuity')
    ctxs = {n: scratch_ctx(infos[n]) for n in infos}
    # one engine run over all packages; contexts are per package
    out = c.engine(mod, ['scratch/' + n for n in P if infos[n]['ok']], {}, jobs, record=10 if not quick else 0)
    for i, (j, jr, ctx) in enumerate(c.jobs):
        ctx.update(ctxs[j['pkg'].split('/')[-1]])
    # engine (stubs) vs native build (real thrift/snappy/gzip) on concrete pseudo-random workloads: both must accept and round-trip
    for n in ('p1', 'p3', 'p4', 'p5'):
        cx = dict(scratch_ctx(infos[n]), dir=mod, overlay={})
        for cd in (0, 1, 2):
            differential(c, {'name': 'pipe-%s-c%d' % (n, cd), 'pkg': 'scratch/' + n, 'func': 'HarnessPipeline', 'args': [2, 1, -1, 2, 2, cd, 0, 1, 0, 0]}, cx, runs=20 if quick else 100)
    c.programs = len(P)
    c.bounds = {'a': 'per-record shred/assemble: 2 fully nondeterministic records (lists ≤ %d, strings ≤ 3 bytes) per core program; person/document 1 nondeterministic + 1 fixed-structure record; flat24 3 fixed-structure records' % ML,
                'b': 'column chunks: 9 and 17 fixed-structure records per primitive type, page size symbolic ≥ 1 (and 8), strings ≤ 10 bytes; one page of 520 records with alternating structure (int32 and bool columns); one page of 8200 records of one structure (int64 columns, numeric statistics stubbed); one page with a 300-byte run-of-one-byte string between two short ones under codec stubs that shrink their input 16-fold',
                'c': 'whole pipeline: %s nondeterministic + 1 fixed-structure record on p1..p5, every batch partition, page size symbolic ≥ 1, each codec' % ('1' if quick else '2'),
                'outside': 'more records per file than stated; lists longer than %d; strings longer than 10 bytes; real snappy/gzip/thrift byte formats (stubs A1-A4)' % ML}
    c.assumptions = [STUB_ASSUMPTIONS[k] for k in ('A1', 'A2', 'A3', 'A4', 'A5', 'A6', 'A7')]
    c.finish('jobs = (program, harness, bounds); paths enumerate every nil/non-nil and list-length structure of the nondeterministic records, every batch partition and every page-size outcome (len == max comparisons fork; one branch covers all larger page sizes); leaf values are symbolic. A path is non-trivial when at least one obligation went to the solver',
             'generated Fields/Add/Scan/read*/write*, Write/Read of every field category, ParquetWriter/ParquetReader, parquet.Metadata, DoWrite/DoRead, compress/pageData, writeLevels/readLevels, rle, bitpack, GetBools executed from SSA; thrift/snappy/gzip/pool stubbed (mode A)')
