"""C16 — introspection calls report exactly what is in the file."""
from vcommon import *
import progs, c01, c02

TEMPLATES = c02.TEMPLATES
NATIVE = c02.NATIVE


def main(tier, replay):
    c = Check('C16', 'model_checking', tier)
    quick = tier == 'quick'
    P = {k: v for k, v in c01.core_programs().items() if k in ('p1', 'p2', 'p4', 'p5', 'emb1', 'flat_bool')}
    mod, infos = setup_programs(c, P, TEMPLATES)
    if replay:
        replay_main(c, replay, infos, NATIVE)
    for n in P:
        if not infos[n]['ok']:
            c.inconclusive.append('program %s: %s' % (n, infos[n]['msg']))
    L = 5 if quick else 8
    jobs = []

    def J(name, prog, args, expect=None):
        j = {'name': name, 'pkg': 'scratch/' + prog, 'func': 'HarnessIntrospect', 'args': args, 'opt': {'stub': c02.nostats(prog)}}
        if expect:
            j['expect'] = expect
        jobs.append(j)
    for i, n in enumerate(P):
        for cd in ((0, 1, 2) if n in ('p1', 'p4') else (i % 3,)):
            J('intro-%s-L%d-c%d' % (n, L, cd), n, [L, -1, 1, cd, 0, 0])
        J('intro-%s-L%d-ps1' % (n, L), n, [L, 2, 1, (i + 1) % 3, 1, 0])
    # records of changing structure, one per page, statistics kept: pages of a chunk differ in size and in their headers
    for i, n in enumerate(('p1', 'p2', 'flat_bool')):
        J('intro-%s-L%d-varying-pages' % (n, L), n, [L, -2, 2, i % 3, 1, 0])
        jobs[-1]['opt'].pop('stub', None)
    # page headers and footer of 1500 bytes (long statistics make real headers exceed 1 KiB)
    for n in ('p1', 'p2'):
        # 600-byte strings: natively the statistics make real page headers longer than 1 KiB as well
        J('long-headers-%s' % n, n, [3, 1, 600 if n == 'p2' else 1, 0, 1, 0])
        jobs[-1]['opt'].pop('stub', None)
        jobs[-1]['opt']['hdr_len'] = 1500
    J('sens-count', 'p4', [3, 1, 1, 0, 0, 1], expect='exactly one header per data page')
    run_program_jobs(c, mod, infos, jobs, native_templates=NATIVE)
    c.programs = len(P)
    c.bounds = {'files': 'every file the writer produces for a history in {Add,Write}^%d + Close, three record structures, page size symbolic >= 1 and 1, each codec (mode A lengths)' % L,
                'outside': 'the thrift decoding of footer/header bytes (A1/A2): "the same footer an independent parser decodes" is therefore NOT decided, only that ReadMetaData reads at the footer position and hands back what was decoded there'}
    c.assumptions = [STUB_ASSUMPTIONS[k] for k in ('A1', 'A2', 'A3', 'A4', 'A6')]
    c.finish('paths = histories x structures x page-size outcomes; each file is walked independently (C02 oracle) and the results of ReadMetaData, PageHeaders and PageHeadersAtOffset (per chunk, with n = num_values and n = 0) are compared with the walk; a path is non-trivial when at least one obligation went to the solver',
             'parquet.ReadMetaData, getMetaDataSize, PageHeaders, PageHeadersAtOffset, PageHeader, readCounter executed from SSA against the abstract file; a decode at a position that is not the start of a header raises the misaligned flag, which is asserted zero')
