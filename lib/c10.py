"""C10 — a failed read or seek never turns into silently wrong rows."""
from faultcommon import *


def main(tier, replay):
    c = Check('C10', 'fault_enumeration', tier)
    quick = tier == 'quick'
    P = {k: v for k, v in c01.core_programs().items() if k in ('p1', 'p2', 'p3', 'p4', 'p5')}
    P.update(progs.same_typed())  # columns of one type: a column decoded from its neighbour's chunk is not caught by a type mismatch
    mod, infos = setup_programs(c, P, TEMPLATES)
    if replay:
        replay_main(c, replay, infos, NATIVE)
    jobs = []

    def J(name, prog, args, expect=None):
        j = {'name': name, 'pkg': 'scratch/' + prog, 'func': 'HarnessReadFault', 'args': args, 'opt': {'stub': c02.nostats(prog)}}
        if expect:
            j['expect'] = expect
        jobs.append(j)
    for n in P:
        for cd in (0, 1, 2):
            if quick and n not in ('p1', 'p4', 'same3', 'same3opt') and cd != (len(n) + ord(n[-1])) % 3:
                continue
            J('fault-%s-c%d-ps1' % (n, cd), n, [2, 2, 1, 1, cd, 1, 0])
            if not quick:
                J('fault-%s-c%d-ps2-fs2' % (n, cd), n, [2, 2, 2, 1, cd, 2, 0])
    J('sens-missing-row', 'p1', [1, 2, 1, 1, 0, 1, 1], expect='exactly the written rows')
    run_program_jobs(c, mod, infos, jobs, native_templates=NATIVE)
    c.programs = len(P)
    # distinct fault positions actually exercised (distinct failed-call notes per workload), measured by the engine
    c.extra['distinct_nontrivial_override'] = sum(jr.get('distinct_notes', 0) for j, jr, x in c.jobs if not j.get('expect'))
    ncalls = [jr['paths'] for j, jr, x in c.jobs]
    c.bounds = {'fault index k': 'symbolic int64 >= 1 over the combined Read/Seek call sequence of the source: one path per call plus the fault-free one (exhaustive over k)',
                'workloads': '2 row groups x 2 records of fixed structure with symbolic values, page size 1 (2 thorough), each codec, programs %s' % sorted(P), 'paths per workload': [min(ncalls or [0]), max(ncalls or [0])],
                'outside': 'failures inside the stubbed decoders are modelled as "the decoder returns the transport error" (A2); thrift headers are read one byte per Read call in the abstract file'}
    c.assumptions = [STUB_ASSUMPTIONS[k] for k in ('A1', 'A2', 'A3', 'A4', 'A6', 'A7')]
    c.finish('paths = value of the symbolic fault index k relative to the number of source calls; distinct_nontrivial = number of distinct (workload, failing call index) pairs actually exercised, counted from the per-path notes; evaluations = paths',
             'NewParquetReader, ReadFooter/ReadMetaData/getMetaDataSize, Pages, RowGroups, readRowGroup, DoRead x2, pageData, readLevels, rle.Read, generated Read/Scan/Next executed from SSA on a source whose k-th Read/Seek fails; property: no panic and (constructor error, or Error() != nil after iteration, or every delivered row correct and complete)')
