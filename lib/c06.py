"""C06 — every Add/Write/Close history gives one row group per non-empty batch."""
from vcommon import *
import progs, c01, c02

TEMPLATES = c02.TEMPLATES
NATIVE = c02.NATIVE


def main(tier, replay):
    c = Check('C06', 'model_checking', tier)
    quick = tier == 'quick'
    P = {k: v for k, v in c01.core_programs().items() if k in ('p1', 'p2', 'p3', 'p4', 'p5', 'emb2')}
    mod, infos = setup_programs(c, P, TEMPLATES)
    if replay:
        replay_main(c, replay, infos, NATIVE)
    for n in P:
        if not infos[n]['ok']:
            c.inconclusive.append('program %s: %s' % (n, infos[n]['msg']))
    L = 7 if quick else 9
    jobs = []

    def J(name, prog, args, modeb, expect=None):
        j = {'name': name, 'pkg': 'scratch/' + prog, 'func': 'HarnessHistory', 'args': args,
             'opt': {'mode_b': bool(modeb), 'stub': c02.nostats(prog)}}
        if expect:
            j['expect'] = expect
        jobs.append(j)
    for n in ('p1', 'p2', 'p4'):
        for cd in (0, 1, 2):
            # mode B: symbolic lengths, walk only; mode A: walk + the generated reader
            J('hist-%s-L%d-B-c%d' % (n, L, cd), n, [L, -1, 1, cd, 0, 0, 0], True)
            J('hist-%s-L%d-A-read-c%d' % (n, L - 1 if quick else L - 2, cd), n, [L - 1 if quick else L - 2, -1, 1, cd, 0, 1, 0], False)
    for n in ('p3', 'p5', 'emb2'):
        J('hist-%s-L5-A-read' % n, n, [5, -1, 1, 1, 0, 1, 0], False)
    # page sizes 1..3 given explicitly as well (batches of exactly / just over the page size)
    for ps in (1, 2, 3):
        J('hist-p1-L%d-ps%d-A-read' % (L, ps), 'p1', [L, 1, 1, 0, ps, 1, 0], False)
    J('sens-rows', 'p1', [3, 1, 1, 0, 0, 0, 1], True, expect='footer num_rows')
    run_program_jobs(c, mod, infos, jobs, native_templates=NATIVE, record=6 if not quick else 0)
    c.programs = len(P)
    c.bounds = {'history length': L, 'alphabet': '{Add, Write} then Close; every sequence', 'page size': 'symbolic >= 1, and 1, 2, 3', 'codecs': [0, 1, 2],
                'records': 'one of three fixed structures per run, values symbolic', 'lengths': 'mode B symbolic header/footer/compressed lengths; mode A concrete',
                'outside': 'histories longer than %d operations; record structure varying inside a history' % L}
    c.assumptions = [STUB_ASSUMPTIONS[k] for k in ('A1', 'A2', 'A3', 'A4', 'A5', 'A6')] + ['string statistics accumulators stubbed (decided by C12)']
    c.finish('paths = every history in {Add,Write}^L x record structure (3) x page-size outcomes; a history is non-trivial when at least one obligation went to the solver',
             'generated Add/Write/Close + Metadata/Footer run on every history; the file is walked as in C02 against a list-of-batches model (row groups = non-empty batches in order, row counts, content of every page); in mode A the generated reader must return exactly the stored rows')
