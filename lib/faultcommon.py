from vcommon import *
import progs, c01, c02

TEMPLATES = c02.TEMPLATES + ['gh_faults.go.tmpl']
NATIVE = c02.NATIVE


def fp_lemma(check):
    """The executor encodes IEEE comparisons over bit patterns; prove the
    encoding equivalent to the FloatingPoint theory's fp.lt/fp.leq/fp.eq
    (both widths) on every run that relies on it."""
    ok = True
    for f in ('fplemma32.smt2', 'fplemma64.smt2'):
        rc, out = sh(['z3', os.path.join(VERIF, 'lib', f)], timeout=300)
        ans = [l.strip() for l in out.splitlines() if l.strip() in ('sat', 'unsat', 'unknown')]
        if ans != ['unsat', 'unsat', 'unsat']:
            ok = False
            check.inconclusive.append('float comparison encoding lemma not proved (%s): %s' % (f, ans))
    check.extra['fp_encoding_lemma'] = 'bit-pattern encodings of <, <=, == proved equivalent to fp.lt/fp.leq/fp.eq for Float32 and Float64 (6 queries, unsat)' if ok else 'FAILED'
