"""C03 — column data is the canonical Dremel striping of the records."""
from vcommon import *
import progs, c01, c02, random

TEMPLATES = c02.TEMPLATES
NATIVE = c02.NATIVE


def main(tier, replay):
    c = Check('C03', 'model_checking', tier)
    quick = tier == 'quick'
    P = c01.core_programs()
    P.update(progs.nested_specials())
    # the repository's grammar: small shapes with groups (striping is about nesting)
    shapes = [(s, n) for s, n in progs.grammar_shapes(3 if quick else 4) if any(m[0] == 'G' for m in s)]
    # quick: every shape with <= 3 nodes that has a group (117); thorough: <= 4 nodes
    G = {}
    gnodes = {}
    gcanon = {}
    for i, (s, n) in enumerate(shapes):
        G['g%03d' % i] = progs.shape_program('g%03d' % i, s)
        gnodes['g%03d' % i] = n
        gcanon['g%03d' % i] = progs.shape_canon(s)
    allp = dict(P)
    allp.update(G)
    mod, infos = setup_programs(c, allp, TEMPLATES)
    if replay:
        replay_main(c, replay, infos, NATIVE)
    for n in P:
        if not infos[n]['ok']:
            c.inconclusive.append('core program %s: %s' % (n, infos[n]['msg']))
    jobs = []

    def stubs(n):
        pk = 'scratch/' + n
        return ['(*%s.stringStats).add' % pk, '(*%s.stringOptionalStats).add' % pk]

    def J(name, prog, args, expect=None):
        j = {'name': name, 'pkg': 'scratch/' + prog, 'func': 'HarnessShred', 'args': args, 'opt': {'stub': stubs(prog)}}
        if expect:
            j['expect'] = expect
        jobs.append(j)
    ML = 2 if quick else 3
    for n in P:
        if n == 'flat24':
            J('core-%s-fixed3' % n, n, [0, 3, 0, 2, 1, 0, 1, 0])
        elif n in ('person', 'document'):
            ml = (1 if n == 'person' else 2) if quick else 2
            J('core-%s-1n1f' % n, n, [1, 1, 0, ml, 0, 0, 1, 0])
            J('core-%s-1f1n' % n, n, [1, 1, 1, ml, 0, 0, 1, 0])
            if not quick and n == 'document':
                J('core-%s-1n-l3' % n, n, [1, 0, 0, 3, 0, 0, 1, 0])
                jobs[-1]['opt']['max_paths'] = 800000   # 474k record structures
        elif n in progs.nested_specials():
            J('core-%s-1n1f' % n, n, [1, 1, 0, 2, 1, 0, 1, 0])
        else:
            J('core-%s-2n' % n, n, [2, 0, 0, ML, 1, 0, 1, 0])
    J('sens-def', 'p4', [1, 0, 0, 1, 1, 0, 1, 1], expect='striping')
    J('sens-def-doc', 'document', [1, 0, 0, 1, 0, 0, 1, 1], expect='striping')
    gen_bad = 0
    for n in G:
        if not infos[n]['ok']:
            gen_bad += 1
            continue
        # one free record (lists <= 2) followed by a fixed-structure one: all nesting combinations, at a bounded path count
        J('gram-%s-1n1f' % n, n, [1, 1, 0, 2, 1, 0, 1, 0])
        if not quick and gnodes[n] <= 3:
            J('gram-%s-2n' % n, n, [2, 0, 0, 2, 1, 0, 1, 0])
    # ---- the same striping observed where the property says: in the FILE.  The level streams and value sections of
    # every page are decoded by the specification's rules alone (bit width = bits needed for the schema's maximum
    # level, hybrid RLE/bit-packed runs, PLAIN values) and compared with the reference striping of the batch.
    nested = [n for n in P if n in ('p4', 'person', 'document') or n in progs.nested_specials()]
    for n in nested:
        wide = n in ('person', 'document')
        jobs.append({'name': 'file-%s' % n, 'pkg': 'scratch/' + n, 'func': 'HarnessFile', 'args': [0 if wide else 1, 2 if wide else 1, -1, 2, 1, 0, 0, 1000, 0],
                     'opt': {'stub': c02.nostats(n)}})
    for n in G:
        if infos[n]['ok'] and (not quick or gnodes[n] <= 3):
            jobs.append({'name': 'gram-%s-file' % n, 'pkg': 'scratch/' + n, 'func': 'HarnessFile', 'args': [1, 1, -1, 2, 1, 0, 0, 1000, 0],
                         'opt': {'stub': c02.nostats(n)}})
    # one page of 8200 records of one structure: each level stream is a single RLE run of 8200 (three-byte run header)
    if 'flat_int64' in P:
        for fs in ((1,) if quick else (0, 1, 2)):
            jobs.append({'name': 'file-run8200-flat_int64-fs%d' % fs, 'pkg': 'scratch/flat_int64', 'func': 'HarnessFile', 'args': [0, 8200 if fs < 2 else 4100, fs, 1, 1, 0, 0, 10000, 0],
                         'opt': {'stub': c02.nostats('flat_int64') + ['(*scratch/flat_int64.int64stats).add', '(*scratch/flat_int64.int64optionalStats).add'],
                                 'max_steps': 600000000, 'max_alloc': 400000}})
    jobs.append({'name': 'sens-file', 'pkg': 'scratch/p4', 'func': 'HarnessFile', 'args': [0, 2, 1, 1, 1, 0, 0, 1000, 1], 'opt': {'stub': c02.nostats('p4')},
                 'expect': 'values stored in the pages'})
    first = len(c.jobs)
    out = run_program_jobs_batched(c, mod, infos, jobs, batch=200, native_templates=NATIVE)
    # engine vs native build on concrete pseudo-random records (observations: definition and repetition levels of every column)
    for n in ('p4', 'document', 'person', 'deep_rep' if 'deep_rep' in infos else 'p1'):
        if n in infos and infos[n]['ok']:
            cx = dict(scratch_ctx(infos[n], NATIVE), dir=mod, overlay={})
            differential(c, {'name': 'shred-%s' % n, 'pkg': 'scratch/' + n, 'func': 'HarnessShred', 'args': [2, 1, 0, 3, 2, 1, 3, 0], 'opt': {'stub': stubs(n)}}, cx, runs=60 if quick else 300)
    # grammar programs that do not compile are C05's business: not a C03 verdict
    bad_compile = sorted({k.split('/')[-1] for k in (out.get('load_errors') or {}) if k.startswith('scratch/g')})
    c.inconclusive = [r for r in c.inconclusive if not re.search(r'job gram-', r)]
    core_bad = [k for k in (out.get('load_errors') or {}) if k.startswith('scratch/') and not k.startswith('scratch/g')]
    for k in core_bad:
        c.inconclusive.append('core package %s does not type-check: %s' % (k, out['load_errors'][k][:2]))
    # a grammar shape that the C05 findings list names as a generator defect is the same defect here: report it
    # as a known finding (keyed by its canonical shape), not as a new violation
    c05 = {}
    for k in load_known():
        if k.get('property') == 'C05' and k.get('kind') == 'finding':
            for shp in k.get('shapes', []):
                c05[shp] = k
    kept = []
    for (j, jr, ctx) in c.jobs:
        m = re.match(r'gram-(g\d+)-', j['name'])
        if m and gcanon.get(m.group(1)) in c05 and (jr.get('violations') or jr.get('unsupported') or jr.get('truncated')):
            k = c05[gcanon[m.group(1)]]
            c.known_hits['C05:' + k['group']] = 'parquetgen generator defect listed under C05 (%s): striping of the listed shapes, e.g. %s' % (k['group'], gcanon[m.group(1)])
            jr = dict(jr)
            jr['violations'], jr['unsupported'], jr['truncated'] = [], {}, False
            ctx = dict(ctx)
            ctx['no_reach'] = True
        kept.append((j, jr, ctx))
    c.jobs = kept
    c.programs = len(P) + len(G) - gen_bad - len(bad_compile)
    c.extra['grammar_programs_not_generated_or_not_compiling'] = {'count': gen_bad + len(bad_compile), 'note': 'counted by C05, skipped here'}
    c.bounds = {'records': '2 structurally free records per program (person/document: 1 free + 1 fixed, both orders)', 'lists': '<= %d' % ML,
                'programs': 'core catalogue (%d) + all %d grammar shapes with groups (<= %d nodes, depth <= 3)' % (len(P), len(G), 3 if quick else 4),
                'file level': 'every nested program and grammar shape also written to a file (1 free + 1 fixed record, lists <= 2, one page per chunk, uncompressed) whose pages are decoded by the specification alone (level bit width from the schema maxima) and compared with the reference striping',
                'long runs': 'one page of 8200 records of one structure (level streams that are a single RLE run with a three-byte header)',
                'outside': 'lists longer than %d; nesting deeper than the catalogue' % ML}
    c.assumptions = ['reference striper written from the Dremel paper (fig. 4) over a value tree built by catalogue-generated conversion code; expected schema comes from the catalogue description, not from parquetgen',
                     'string statistics accumulators stubbed (irrelevant to striping, decided by C12)']
    c.finish('one job per program; paths enumerate every combination of nil/non-nil optionals and list lengths at every nesting level of the free records; a path is non-trivial when at least one obligation went to the solver (most striping obligations are decided syntactically because the generated code moves values without transforming them)',
             'generated read<Col> functions via Field.Add, NewOptionalField (max levels), OptionalField.DoWrite + rle.Write/Bytes (level serialisation) executed from SSA; Defs/Reps/vals of every generated field compared with the reference striping, def <= maxDef, rep <= maxRep, column order/names against the catalogue schema')
