"""Program catalogue: struct definitions described independently of
parquetgen's parser, with emitters for the Go struct file and for the
per-program part of the harness (nondet record builder, equality, generic
tree for the reference striper, column accessors, expected schema)."""
import itertools, random

PRIMS = ['int32', 'int64', 'uint32', 'uint64', 'float32', 'float64', 'bool', 'string']
SHORT = {'int32': 'i32', 'int64': 'i64', 'uint32': 'u32', 'uint64': 'u64', 'float32': 'f32', 'float64': 'f64',
         'bool': 'bool', 'string': 'str'}
CAMEL = {'int32': 'Int32', 'int64': 'Int64', 'uint32': 'Uint32', 'uint64': 'Uint64', 'float32': 'Float32',
         'float64': 'Float64', 'bool': 'Bool', 'string': 'String'}
NONDET = {'int32': 'vNondetI32()', 'int64': 'vNondetI64()', 'uint32': 'vNondetU32()', 'uint64': 'vNondetU64()',
          'float32': 'vNondetF32()', 'float64': 'vNondetF64()', 'bool': 'vNondetBool()', 'string': 'vNondetString(strLen)'}
PQTYPE = {'int32': 'INT32', 'int64': 'INT64', 'uint32': 'INT32', 'uint64': 'INT64', 'float32': 'FLOAT',
          'float64': 'DOUBLE', 'bool': 'BOOLEAN', 'string': 'BYTE_ARRAY'}
CONVERTED = {'uint32': 'UINT_32', 'uint64': 'UINT_64'}
REPCODE = {'req': 0, 'opt': 1, 'rep': 2}


class F:
    """A struct member.  Leaf: typ set.  Group: kids set.  excl: excluded
    member (C14) given as (go type text, tag text or None, exported name?)."""

    def __init__(self, name, typ=None, rep='req', kids=None, tag=None, embedded=False, excl=None):
        self.name, self.typ, self.rep, self.kids, self.tag, self.embedded, self.excl = name, typ, rep, kids, tag, embedded, excl
        self.gotype = None

    def col(self):
        return self.tag if self.tag else self.name

    def is_leaf(self):
        return self.typ is not None


def leaf(name, typ, rep='req', tag=None):
    return F(name, typ=typ, rep=rep, tag=tag)


def group(name, kids, rep='req', tag=None, embedded=False):
    return F(name, kids=kids, rep=rep, tag=tag, embedded=embedded)


class Program:
    def __init__(self, name, kids, root='Rec'):
        self.name, self.kids, self.root = name, kids, root
        self._name_types()

    def _name_types(self):
        used = set([self.root])

        def walk(kids, prefix):
            for k in kids:
                if k.kids is not None and k.excl is None:
                    if k.gotype is None:
                        base = 'T' + prefix + k.name
                        t = base
                        i = 2
                        while t in used:
                            t = base + str(i)
                            i += 1
                        k.gotype = t
                    used.add(k.gotype)
                    walk(k.kids, prefix + k.name)
        walk(self.kids, '')

    # ---------------------------------------------------------- canonical text
    def canon(self):
        def f(k):
            pre = {'req': '', 'opt': '*', 'rep': '[]'}[k.rep]
            if k.excl is not None:
                return '%s:-%s%s' % (k.name, k.excl[0], '(json+dash)' if k.excl[1] == 'JSONDASH' else '')
            if k.is_leaf():
                return '%s:%s%s' % (k.col(), pre, SHORT[k.typ])
            body = ','.join(f(c) for c in k.kids)
            if k.embedded:
                return '%s:embed{%s}' % (k.name, body)
            return '%s:%s{%s}' % (k.col(), pre, body)
        return '{' + ','.join(f(k) for k in self.kids) + '}'

    # ---------------------------------------------------------- struct source
    def struct_source(self, pkg):
        out = ['package %s\n' % pkg]
        types = []

        def member(k):
            if k.excl is not None:
                if k.excl[0] == 'EMBED_UNEXPORTED':
                    return '\t%s' % k.name  # embedded struct whose type name is unexported
                if k.excl[0] == 'EMBED_NOCOLS':
                    return '\t%s' % k.name  # embedded exported struct all of whose members are excluded: no columns at all
                if k.excl[0] == 'EMBED_EXPORTED':
                    # embedded struct of an exported type, excluded by its tag
                    return '\t%s %s' % (k.name, '`json:"audit,omitempty" parquet:"-"`' if k.excl[1] == 'JSONDASH' else '`parquet:"-"`')
                tag = (' `parquet:"%s"`' % k.excl[1]) if k.excl[1] else ''
                if k.excl[1] == 'JSONDASH':
                    tag = ' `json:"secret,omitempty" parquet:"-"`'  # another key before the parquet key
                return '\t%s %s%s' % (k.name, k.excl[0], tag)
            pre = {'req': '', 'opt': '*', 'rep': '[]'}[k.rep]
            t = k.typ if k.is_leaf() else k.gotype
            tag = (' `parquet:"%s"`' % k.tag) if k.tag else ''
            if k.tag and getattr(self, 'other_keys', False) and not k.embedded:
                # other keys before the parquet key (the column name is the value of the PARQUET key)
                tag = ' `json:"%s_j,omitempty" db:"-" parquet:"%s"`' % (k.name.lower(), k.tag)
            if k.embedded:
                return '\t%s%s' % (t, tag)
            return '\t%s %s%s%s' % (k.name, pre, t, tag)

        def walk(name, kids):
            lines = ['type %s struct {' % name] + [member(k) for k in kids] + ['}\n']
            types.append('\n'.join(lines))
            for k in kids:
                if k.kids is not None and k.excl is None:
                    walk(k.gotype, k.kids)
        walk(self.root, self.kids)
        for k in self.all_members():
            if k.excl and k.excl[0] == 'EMBED_NOCOLS':
                types.append('type %s struct {\n\trev int32\n\tWho string `parquet:"-"`\n}\n' % k.name)
            if k.excl and k.excl[0] in ('EMBED_UNEXPORTED', 'EMBED_EXPORTED'):
                types.append('type %s struct {\n\tRev int32\n\tWho string\n}\n' % k.name)
        if any(k.excl and 'Unsupported' in k.excl[0] for k in self.all_members()):
            types.append('type Unsupported struct {\n\tZ map[string]chan int\n}\n')
        return '\n'.join(out + list(dict.fromkeys(types)))  # a struct type used in two places is defined once

    def all_members(self):
        def walk(kids):
            for k in kids:
                yield k
                if k.kids is not None and k.excl is None:
                    yield from walk(k.kids)
        return list(walk(self.kids))

    # ---------------------------------------------------------- schema view
    def schema_kids(self, kids=None):
        """Parquet view: excluded members dropped, embedded groups hoisted."""
        out = []
        for k in (self.kids if kids is None else kids):
            if k.excl is not None:
                continue
            if k.embedded:
                out += self.schema_kids(k.kids)
            else:
                out.append(k)
        return out

    def columns(self):
        """[(path names, leaf F, [rep of each path element], go access chain)]"""
        cols = []

        def walk(kids, path, reps):
            for k in self.schema_kids(kids):
                p, r = path + [k.col()], reps + [k.rep]
                if k.is_leaf():
                    cols.append((p, k, r))
                else:
                    walk(k.kids, p, r)
        walk(self.kids, [], [])
        return cols

    def field_type(self, leaf_f, reps):
        allreq = all(r == 'req' for r in reps)
        return CAMEL[leaf_f.typ] + ('' if allreq else 'Optional') + 'Field'

    # ---------------------------------------------------------- harness source
    def harness_source(self, pkg):
        o = ['package %s\n' % pkg, 'import "math"\n', 'var _ = math.Float32bits\n', 'type vRec = %s\n' % self.root]
        o.append('const vProgram = %s\n' % go_str(self.canon()))
        # ---- nondet builders
        def nondet(tname, kids):
            L = ['func vNondet_%s(maxList, strLen int) %s {' % (tname, tname), '\tvar r %s' % tname]
            for k in kids:
                acc = 'r.' + (k.gotype if k.embedded else k.name)
                if k.excl is not None:
                    t = k.excl[0]
                    if t == 'int32':
                        L.append('\t%s = vNondetI32()' % acc)
                    elif t == '*string':
                        L.append('\tif vChoose(2) == 1 { s := vNondetString(1); %s = &s }' % acc)
                    elif t == '[]byte':
                        L.append('\tif vChoose(2) == 1 { %s = []byte{vNondetU8()} }' % acc)
                    continue
                if k.is_leaf():
                    gen = NONDET[k.typ]
                else:
                    gen = 'vNondet_%s(maxList, strLen)' % k.gotype
                if k.rep == 'req':
                    L.append('\t%s = %s' % (acc, gen))
                elif k.rep == 'opt':
                    L.append('\tif vChoose(2) == 1 { v := %s; %s = &v }' % (gen, acc))
                else:
                    L.append('\t{ n := vChoose(maxList + 1); for i := 0; i < n; i++ { %s = append(%s, %s) } }' % (acc, acc, gen))
            L += ['\treturn r', '}\n']
            o.append('\n'.join(L))
            for k in kids:
                if k.kids is not None and k.excl is None:
                    nondet(k.gotype, k.kids)
        nondet(self.root, self.kids)

        # ---- fixed-structure builder: structure code s (0 all nil/empty, 1 all present lists of 1, 2 lists of 2), values symbolic
        def fixed(tname, kids):
            L = ['func vFixed_%s(s int, strLen int) %s {' % (tname, tname), '\tvar r %s' % tname]
            for k in kids:
                acc = 'r.' + (k.gotype if k.embedded else k.name)
                if k.excl is not None:
                    continue
                gen = NONDET[k.typ] if k.is_leaf() else 'vFixed_%s(s, strLen)' % k.gotype
                if k.typ == 'string':
                    gen = 'vFixedString(vMin1(s) * strLen)'
                if k.rep == 'req':
                    L.append('\t%s = %s' % (acc, gen))
                elif k.rep == 'opt':
                    L.append('\tif s > 0 { v := %s; %s = &v }' % (gen, acc))
                else:
                    L.append('\tfor i := 0; i < s; i++ { %s = append(%s, %s) }' % (acc, acc, gen))
            L += ['\treturn r', '}\n']
            o.append('\n'.join(L))
            for k in kids:
                if k.kids is not None and k.excl is None:
                    fixed(k.gotype, k.kids)
        fixed(self.root, self.kids)

        CONC = {'int32': 'int32(fill) * 1000003', 'int64': 'int64(fill) * 1000000007', 'uint32': 'uint32(fill) * 40503', 'uint64': 'uint64(fill) * 2654435761',
                'float32': 'float32(fill) * 1.5', 'float64': 'float64(fill) * 2.25', 'bool': 'fill%2 == 1', 'string': 'vConcString(vMin1(s)*strLen, fill)'}

        def conc(tname, kids):
            L = ['func vConc_%s(s int, strLen int, fill byte) %s {' % (tname, tname), '\tvar r %s' % tname]
            for k in kids:
                acc = 'r.' + (k.gotype if k.embedded else k.name)
                if k.excl is not None:
                    continue
                gen = CONC[k.typ] if k.is_leaf() else 'vConc_%s(s, strLen, fill)' % k.gotype
                if k.rep == 'req':
                    L.append('\t%s = %s' % (acc, gen))
                elif k.rep == 'opt':
                    L.append('\tif s > 0 { v := %s; %s = &v }' % (gen, acc))
                else:
                    L.append('\tfor i := 0; i < s; i++ { %s = append(%s, %s) }' % (acc, acc, gen))
            L += ['\treturn r', '}\n']
            o.append('\n'.join(L))
            for k in kids:
                if k.kids is not None and k.excl is None:
                    conc(k.gotype, k.kids)
        conc(self.root, self.kids)
        o.append('func vConcreteRec(s, strLen int, fill byte) vRec { return vConc_%s(s, strLen, fill) }\n' % self.root)

        # ---- equality (nil slice == empty slice, floats by bits); excluded members ignored
        def eq_leaf(k, a, b):
            if k.typ == 'float32':
                return 'math.Float32bits(%s) == math.Float32bits(%s)' % (a, b)
            if k.typ == 'float64':
                return 'math.Float64bits(%s) == math.Float64bits(%s)' % (a, b)
            return '%s == %s' % (a, b)

        def same(tname, kids):
            L = ['func vSame_%s(a, b %s) bool {' % (tname, tname), '\tok := true']
            for k in kids:
                if k.excl is not None:
                    continue
                n = k.gotype if k.embedded else k.name
                A, B = 'a.' + n, 'b.' + n
                cmp = (lambda x, y: eq_leaf(k, x, y)) if k.is_leaf() else (lambda x, y: 'vSame_%s(%s, %s)' % (k.gotype, x, y))
                if k.rep == 'req':
                    L.append('\tok = vAnd(ok, %s)' % cmp(A, B))
                elif k.rep == 'opt':
                    L.append('\tif (%s == nil) != (%s == nil) { return false }' % (A, B))
                    L.append('\tif %s != nil { ok = vAnd(ok, %s) }' % (A, cmp('*' + A, '*' + B)))
                else:
                    L.append('\tif len(%s) != len(%s) { return false }' % (A, B))
                    L.append('\tfor i := range %s { ok = vAnd(ok, %s) }' % (A, cmp(A + '[i]', B + '[i]')))
            L += ['\treturn ok', '}\n']
            o.append('\n'.join(L))
            for k in kids:
                if k.kids is not None and k.excl is None:
                    same(k.gotype, k.kids)
        same(self.root, self.kids)
        o.append('func vSameRec(a, b vRec) bool { return vSame_%s(a, b) }\n' % self.root)
        o.append('func vNondetRec(maxList, strLen int) vRec { return vNondet_%s(maxList, strLen) }\n' % self.root)
        o.append('func vFixedRec(s, strLen int) vRec { return vFixed_%s(s, strLen) }\n' % self.root)

        # ---- excluded members are zero (C14)
        def exclzero(tname, kids):
            L = ['func vExclZero_%s(a %s) bool {' % (tname, tname), '\tok := true']
            for k in kids:
                n = k.gotype if k.embedded else k.name
                if k.excl is not None:
                    t = k.excl[0]
                    if t in ('int32',):
                        L.append('\tok = vAnd(ok, a.%s == 0)' % n)
                    elif t.startswith('*') or t.startswith('[]') or t.startswith('map') or t.startswith('chan') or t.startswith('func') or t == 'interface{}':
                        L.append('\tif a.%s != nil { return false }' % n)
                    elif t.startswith('struct{'):
                        L.append('\tok = vAnd(ok, a.%s.Q == 0)' % n)
                    elif t in ('EMBED_UNEXPORTED', 'EMBED_EXPORTED'):
                        L.append('\tok = vAnd(ok, vAnd(a.%s.Rev == 0, a.%s.Who == ""))' % (n, n))
                    elif t == 'EMBED_NOCOLS':
                        L.append('\tok = vAnd(ok, vAnd(a.%s.rev == 0, a.%s.Who == ""))' % (n, n))
                    continue
                if k.kids is None:
                    continue
                if k.rep == 'req':
                    L.append('\tok = vAnd(ok, vExclZero_%s(a.%s))' % (k.gotype, n))
                elif k.rep == 'opt':
                    L.append('\tif a.%s != nil { ok = vAnd(ok, vExclZero_%s(*a.%s)) }' % (n, k.gotype, n))
                else:
                    L.append('\tfor i := range a.%s { ok = vAnd(ok, vExclZero_%s(a.%s[i])) }' % (n, k.gotype, n))
            L += ['\treturn ok', '}\n']
            o.append('\n'.join(L))
            for k in kids:
                if k.kids is not None and k.excl is None:
                    exclzero(k.gotype, k.kids)
        exclzero(self.root, self.kids)
        o.append('func vExclZeroRec(a vRec) bool { return vExclZero_%s(a) }\n' % self.root)
        o.append('// exported hooks for the C14 pair package (excluded members may be unexported)\nfunc VExclZeroRec(a Rec) bool { return vExclZero_%s(a) }\n' % self.root)

        def fillex(tname, kids):
            # draws come from the caller's intrinsics (the pair package owns the replay vector)
            L = ['func vFillExcl_%s(a *%s, i32 func() int32, u8 func() uint8) {' % (tname, tname)]
            for k in kids:
                n = k.gotype if k.embedded else k.name
                if k.excl is not None:
                    t = k.excl[0]
                    if t == 'int32':
                        L.append('\ta.%s = i32()' % n)
                    elif t == '*string':
                        L.append('\t{ s := string([]byte{u8()}); a.%s = &s }' % n)
                    elif t == '[]byte':
                        L.append('\ta.%s = []byte{u8()}' % n)
                    elif t.startswith('map'):
                        L.append('\ta.%s = map[string]int{"k": 1}' % n)
                    elif t.startswith('struct{'):
                        L.append('\ta.%s.Q = i32()' % n)
                    elif t in ('EMBED_UNEXPORTED', 'EMBED_EXPORTED'):
                        L.append('\ta.%s.Rev = i32(); a.%s.Who = string([]byte{u8()})' % (n, n))
                    elif t == 'EMBED_NOCOLS':
                        L.append('\ta.%s.rev = i32(); a.%s.Who = string([]byte{u8()})' % (n, n))
                    elif t == 'interface{}':
                        L.append('\ta.%s = 7' % n)
                    elif t == '*Unsupported':
                        L.append('\ta.%s = &Unsupported{}' % n)
                    continue
                if k.kids is None:
                    continue
                if k.rep == 'req':
                    L.append('\tvFillExcl_%s(&a.%s, i32, u8)' % (k.gotype, n))
                elif k.rep == 'opt':
                    L.append('\tif a.%s != nil { vFillExcl_%s(a.%s, i32, u8) }' % (n, k.gotype, n))
                else:
                    L.append('\tfor i := range a.%s { vFillExcl_%s(&a.%s[i], i32, u8) }' % (n, k.gotype, n))
            L += ['}\n']
            o.append('\n'.join(L))
            for k in kids:
                if k.kids is not None and k.excl is None:
                    fillex(k.gotype, k.kids)
        fillex(self.root, self.kids)
        o.append('func VFillExcluded(a *Rec, i32 func() int32, u8 func() uint8) { vFillExcl_%s(a, i32, u8) }\n' % self.root)
        o.append('func VSameRec(a, b Rec) bool { return vSame_%s(a, b) }\n' % self.root)

        # ---- mutate every reachable cell behind pointers and slices (C01 aliasing clause)
        def mutate(tname, kids):
            L = ['func vMutate_%s(a *%s) {' % (tname, tname)]
            for k in kids:
                if k.excl is not None:
                    continue
                n = k.gotype if k.embedded else k.name
                if k.is_leaf():
                    gen = NONDET[k.typ].replace('vNondetString(strLen)', 'vFixedString(1)')
                    if k.rep == 'req':
                        L.append('\ta.%s = %s' % (n, gen))
                    elif k.rep == 'opt':
                        L.append('\tif a.%s != nil { *a.%s = %s }' % (n, n, gen))
                    else:
                        L.append('\tfor i := range a.%s { a.%s[i] = %s }' % (n, n, gen))
                else:
                    if k.rep == 'req':
                        L.append('\tvMutate_%s(&a.%s)' % (k.gotype, n))
                    elif k.rep == 'opt':
                        L.append('\tif a.%s != nil { vMutate_%s(a.%s) }' % (n, k.gotype, n))
                    else:
                        L.append('\tfor i := range a.%s { vMutate_%s(&a.%s[i]) }' % (n, k.gotype, n))
            L += ['}\n']
            o.append('\n'.join(L))
            for k in kids:
                if k.kids is not None and k.excl is None:
                    mutate(k.gotype, k.kids)
        mutate(self.root, self.kids)
        o.append('func vMutateRec(a *vRec) { vMutate_%s(a) }\n' % self.root)

        # ---- generic tree for the reference striper
        def leafval(k, e):
            t = k.typ
            if t == 'string':
                return 'vItem{s: %s}' % e
            if t == 'bool':
                return 'vItem{b: %s}' % e
            if t == 'float32':
                return 'vItem{u: uint64(math.Float32bits(%s))}' % e
            if t == 'float64':
                return 'vItem{u: math.Float64bits(%s)}' % e
            if t in ('int32', 'uint32'):
                return 'vItem{u: uint64(uint32(%s))}' % e
            return 'vItem{u: uint64(%s)}' % e

        def tree(tname, kids):
            L = ['func vTree_%s(a %s) *vGroup {' % (tname, tname), '\tg := &vGroup{}']

            def emit(kids, accpre):
                for k in kids:
                    if k.excl is not None:
                        continue
                    n = accpre + (k.gotype if k.embedded else k.name)
                    if k.embedded:
                        emit(k.kids, n + '.')
                        continue
                    conv = (lambda e: leafval(k, e)) if k.is_leaf() else (lambda e: 'vItem{g: vTree_%s(%s)}' % (k.gotype, e))
                    if k.rep == 'req':
                        L.append('\tg.kids = append(g.kids, []vItem{%s})' % conv(n))
                    elif k.rep == 'opt':
                        L.append('\tif %s != nil { g.kids = append(g.kids, []vItem{%s}) } else { g.kids = append(g.kids, nil) }' % (n, conv('*' + n)))
                    else:
                        L.append('\t{ var l []vItem; for _, e := range %s { l = append(l, %s) }; g.kids = append(g.kids, l) }' % (n, conv('e')))
            emit(kids, 'a.')
            L += ['\treturn g', '}\n']
            o.append('\n'.join(L))
            for k in kids:
                if k.kids is not None and k.excl is None:
                    tree(k.gotype, k.kids)
        tree(self.root, self.kids)
        o.append('func vTreeRec(a vRec) *vGroup { return vTree_%s(a) }\n' % self.root)

        # ---- expected schema (independent of parquetgen)
        def sch(kids):
            parts = []
            for k in self.schema_kids(kids):
                if k.is_leaf():
                    parts.append('{name: %s, rep: %d, typ: %s, conv: %s}' % (go_str(k.col()), REPCODE[k.rep], go_str(PQTYPE[k.typ]), go_str(CONVERTED.get(k.typ, ''))))
                else:
                    parts.append('{name: %s, rep: %d, kids: []*vSchema{%s}}' % (go_str(k.col()), REPCODE[k.rep], ', '.join(sch(k.kids))))
            return parts
        o.append('var vSchemaRoot = &vSchema{name: "root", kids: []*vSchema{%s}}\n' % ', '.join(sch(self.kids)))

        # ---- column accessors: levels and values held by each generated field
        L = ['func vColumn(f Field) (defs, reps []uint8, vals []vItem, ok bool) {', '\tswitch x := f.(type) {']
        seen = set()
        for path, lf, reps in self.columns():
            ft = self.field_type(lf, reps)
            if ft in seen:
                continue
            seen.add(ft)
            L.append('\tcase *%s:' % ft)
            if 'Optional' in ft:
                L.append('\t\tdefs, reps = x.Defs, x.Reps')
            L.append('\t\tfor _, v := range x.vals { vals = append(vals, %s) }' % leafval(lf, 'v'))
            L.append('\t\treturn defs, reps, vals, true')
        L += ['\t}', '\treturn nil, nil, nil, false', '}\n']
        o.append('\n'.join(L))
        return '\n'.join(dict.fromkeys(o))  # helpers of a struct type used in two places are emitted once


def go_str(s):
    return '"' + s.replace('\\', '\\\\').replace('"', '\\"') + '"'


# -------------------------------------------------------------------- catalogue

def flat24():
    kids = []
    for t in PRIMS:
        c = CAMEL[t]
        kids.append(leaf(c + 'R', t, 'req', tag=c.lower() + '_r'))
        kids.append(leaf(c + 'O', t, 'opt', tag=c.lower() + '_o'))
        kids.append(leaf(c + 'L', t, 'rep', tag=c.lower() + '_l'))
    return Program('flat24', kids)


def flat_types():
    P = {}
    for t in PRIMS:
        c = CAMEL[t]
        P['flat_' + t] = Program('flat_' + t, [leaf('R', t, 'req', tag='r'), leaf('O', t, 'opt', tag='o'), leaf('L', t, 'rep', tag='l')] + ([leaf('N', 'int32', tag='n')] if t == 'bool' else []))
    return P


def minis():
    P = {}
    P['p1'] = Program('p1', [leaf('A', 'int32', tag='a'), leaf('B', 'int64', 'opt', tag='b'), leaf('C', 'int32', 'rep', tag='c')])
    P['p2'] = Program('p2', [leaf('S', 'string', tag='s'), leaf('T', 'string', 'opt', tag='t'), leaf('U', 'string', 'rep', tag='u')])
    P['p3'] = Program('p3', [leaf('X', 'bool', tag='x'), leaf('Y', 'bool', 'opt', tag='y'), leaf('Z', 'bool', 'rep', tag='z'), leaf('W', 'int32', tag='w')])
    P['p4'] = Program('p4', [leaf('A', 'int32', tag='a'),
                             group('G', [leaf('K', 'int32', tag='k'), leaf('L', 'string', 'opt', tag='l')], 'opt', tag='g'),
                             group('R', [leaf('M', 'int64', tag='m'), leaf('N', 'bool', 'opt', tag='n')], 'rep', tag='r')])
    P['p5'] = Program('p5', [leaf('F', 'float32', tag='f'), leaf('D', 'float64', 'opt', tag='d'), leaf('E', 'float64', 'rep', tag='e'),
                             leaf('H', 'uint32', tag='h'), leaf('I', 'uint64', 'opt', tag='i')])
    return P


def person():
    # the repository's own test struct shape (parquet_test.go Person), transcribed
    hobby = group('Hobby', [leaf('Name', 'string', tag='name'), leaf('Difficulty', 'int32', 'opt', tag='difficulty'),
                            group('Skills', [leaf('Name', 'string', tag='name'), leaf('Difficulty', 'string', tag='difficulty')], 'rep', tag='skills')], 'opt', tag='hobby')
    return Program('person', [leaf('ID', 'int32', tag='id'), leaf('Age', 'int32', 'opt', tag='age'), leaf('Happiness', 'int64', tag='happiness'),
                              leaf('Sadness', 'int64', 'opt', tag='sadness'), leaf('Code', 'string', 'opt', tag='code'),
                              leaf('Funkiness', 'float32', tag='funkiness'), leaf('Boldness', 'float64', 'opt', tag='boldness'),
                              leaf('Lameness', 'float32', 'opt', tag='lameness'), leaf('Keen', 'bool', 'opt', tag='keen'),
                              leaf('Birthday', 'uint32', tag='birthday'), leaf('Anniversary', 'uint64', 'opt', tag='anniversary'),
                              leaf('Sleepy', 'bool', tag='Sleepy'), hobby, leaf('Friends', 'string', 'rep', tag='friends')])


def dremel_document():
    # Dremel paper's Document
    links = group('Links', [leaf('Backward', 'int64', 'rep'), leaf('Forward', 'int64', 'rep')], 'opt')
    lang = group('Languages', [leaf('Code', 'string'), leaf('Country', 'string', 'opt')], 'rep')
    names = group('Names', [lang, leaf('URL', 'string', 'opt')], 'rep')
    return Program('document', [leaf('DocID', 'int64'), links, names])


def embeds():
    P = {}
    P['emb1'] = Program('emb1', [leaf('A', 'int32', tag='a'), group('Inner', [leaf('B', 'int64', 'opt', tag='b'), leaf('C', 'string', tag='c')], embedded=True), leaf('D', 'bool', tag='d')])
    P['emb2'] = Program('emb2', [group('Outer', [leaf('A', 'int32', tag='a'), group('Inner', [leaf('B', 'string', 'opt', tag='b')], embedded=True)], embedded=True), leaf('C', 'int32', 'rep', tag='c')])
    P['emb3'] = Program('emb3', [leaf('Z', 'int64', tag='z'),
                                 group('L1', [group('L2', [group('L3', [leaf('Q', 'int32', 'opt', tag='q')], embedded=True), leaf('R', 'string', tag='r')], embedded=True)], embedded=True)])
    return P


def same_typed():
    P = {}
    P['same3'] = Program('same3', [leaf('A', 'int64', tag='a'), leaf('B', 'int64', tag='b'), leaf('C', 'int64', tag='c')])
    P['same3opt'] = Program('same3opt', [leaf('A', 'int64', 'opt', tag='a'), leaf('B', 'int64', 'opt', tag='b'), leaf('C', 'int64', 'opt', tag='c')])
    return P


def nested_specials():
    """Shapes the C02 quantifier names explicitly."""
    P = {}
    # same-named groups under different parents
    P['same1'] = Program('same1', [group('A', [group('X', [leaf('P', 'int32', tag='p')], tag='x')], tag='a'),
                                   group('B', [group('X', [leaf('Q', 'int64', 'opt', tag='q')], 'opt', tag='x')], 'opt', tag='b')])
    P['same2'] = Program('same2', [group('X', [leaf('P', 'int32', tag='p')], 'opt', tag='x'),
                                   group('B', [group('X', [leaf('Q', 'string', tag='q')], 'rep', tag='x')], tag='b')])
    # nesting to several levels
    P['deep_req'] = Program('deep_req', [group('A', [group('B', [leaf('C', 'int32', tag='c')], tag='b')], tag='a')])
    P['deep_opt'] = Program('deep_opt', [group('A', [group('B', [group('C', [leaf('D', 'int32', 'opt', tag='d')], 'opt', tag='c'), leaf('E', 'string', tag='e')], 'opt', tag='b')], 'opt', tag='a'), leaf('Z', 'int64', tag='z')])
    P['deep_rep'] = Program('deep_rep', [group('A', [group('B', [leaf('C', 'int32', 'rep', tag='c')], 'rep', tag='b'), leaf('N', 'int64', tag='n')], 'rep', tag='a')])
    # group paths whose names concatenate to the same string: a.b vs ab
    P['concat1'] = Program('concat1', [leaf('Id', 'int64', tag='id'), group('A', [group('B', [leaf('X', 'int32', tag='x')], 'opt', tag='b')], tag='a'),
                                       group('Ab', [leaf('Y', 'string', 'opt', tag='y'), leaf('Z', 'float64', tag='z')], 'opt', tag='ab')])
    P['two_groups'] = Program('two_groups', [group('G', [leaf('A', 'int32', tag='a'), leaf('B', 'string', 'opt', tag='b')], tag='g'), leaf('M', 'bool', tag='m'),
                                             group('H', [leaf('C', 'int64', 'rep', tag='c')], 'opt', tag='h')])
    return P


# -------------------------------------------------------------------- bounded grammar (C05)

def grammar_shapes(max_nodes, max_depth=3, max_members=2):
    """All shapes: a struct is a list of 1..max_members members; a member is a
    leaf (req|opt|rep) or a group (req|opt|rep) whose body is a struct.
    Yields nested tuples ('L', rep) / ('G', rep, (members...)); node count =
    leaves + groups."""
    def members(budget, depth):
        # yield (tuple of members, nodes used)
        def one(budget, depth):
            for rep in ('req', 'opt', 'rep'):
                yield ('L', rep), 1
            if depth < max_depth:
                for rep in ('req', 'opt', 'rep'):
                    for body, n in members(budget - 1, depth + 1):
                        if 1 + n <= budget:
                            yield ('G', rep, body), 1 + n
        for k in range(1, max_members + 1):
            if k == 1:
                for m, n in one(budget, depth):
                    if n <= budget:
                        yield (m,), n
            else:
                for m1, n1 in one(budget - 1, depth):
                    for m2, n2 in one(budget - n1, depth):
                        if n1 + n2 <= budget:
                            yield (m1, m2), n1 + n2
    for body, n in members(max_nodes, 1):
        yield body, n


def shape_program(name, shape, same_names=False, rot=('int32', 'string', 'bool')):
    """Instantiate a shape: leaf types rotate (int32,string,bool by default) by position."""
    cnt = itertools.count()

    def build(ms, depth):
        out = []
        for i, m in enumerate(ms):
            idx = next(cnt)
            nm = chr(ord('A') + (idx % 26)) + ('' if idx < 26 else str(idx // 26))
            if m[0] == 'L':
                out.append(leaf(nm, rot[idx % len(rot)], m[1], tag=nm.lower()))
            else:
                gname = 'G' + nm
                tag = 'g' if same_names else gname.lower()
                out.append(group(gname, build(m[2], depth + 1), m[1], tag=tag))
        return out
    return Program(name, build(shape, 1))


def shape_canon(shape):
    def f(m):
        pre = {'req': '', 'opt': '*', 'rep': '[]'}[m[1]]
        if m[0] == 'L':
            return pre + 'L'
        return pre + '{' + ','.join(f(x) for x in m[2]) + '}'
    return '{' + ','.join(f(m) for m in shape) + '}'


# -------------------------------------------------------------------- C14 decorations
import copy

EXCL_TYPES = ['int32', '*string', '[]byte', 'map[string]int', 'chan int', 'func(X int32) error', 'struct{ Q int32 }', 'struct{ Q int32 `parquet:"q"` }', 'interface{}', '*Unsupported', 'EMBED_UNEXPORTED', 'EMBED_EXPORTED']


def _clone(kids):
    out = []
    for k in kids:
        c = F(k.name, typ=k.typ, rep=k.rep, kids=_clone(k.kids) if k.kids is not None else None, tag=k.tag, embedded=k.embedded, excl=k.excl)
        c.base_path = getattr(k, 'base_path', None)
        c.gotype = None
        out.append(c)
    return out


ALT_TYPE = {'int32': 'int64', 'int64': 'int32', 'uint32': 'uint64', 'uint64': 'uint32', 'float32': 'float64', 'float64': 'float32', 'bool': 'int32', 'string': 'int64'}


def alt_types(base, name):
    """The same column names, nesting and repetition with every leaf of a
    different physical type (C13: another record type in the same process)."""
    def swap(kids):
        for k in kids:
            if k.kids is not None:
                swap(k.kids)
            elif k.excl is None:
                k.typ = ALT_TYPE[k.typ]
    kids = _clone(base.kids)
    swap(kids)
    return Program(name, kids)


def _mark_paths(kids, prefix):
    for k in kids:
        k.base_path = prefix + [k.name]
        if k.kids is not None:
            _mark_paths(k.kids, k.base_path)


def positions(prog):
    """(struct path, index) insertion points: every position of every struct."""
    out = []

    def walk(kids, path):
        for i in range(len(kids) + 1):
            out.append((path, i))
        for k in kids:
            if k.kids is not None:
                walk(k.kids, path + [k.name])
    walk(prog.kids, [])
    return out


def decorate_excluded(base, name, where, idx, mode, gotype):
    """Insert an excluded member at position idx of the struct reached by
    `where`.  mode: 'unexported' (lower-case name) or 'dash' (parquet:"-")."""
    kids = _clone(base.kids)
    _mark_paths(kids, [])
    tgt = kids
    for n in where:
        tgt = [k for k in tgt if k.name == n][0].kids
    if gotype == 'EMBED_UNEXPORTED':
        ex = F('audit%d%s' % (idx, ''.join(where).lower()), excl=(gotype, None))
    elif gotype == 'EMBED_NOCOLS':
        ex = F('Marker%d%s' % (idx, ''.join(where).lower()), excl=(gotype, None))
    elif gotype == 'EMBED_EXPORTED':
        ex = F('Audit%d%s' % (idx, ''.join(where).lower()), excl=(gotype, 'JSONDASH' if mode == 'jsondash' else '-'))
    elif mode == 'unexported':
        ex = F('hidden' + str(idx), excl=(gotype, None))
    elif mode == 'jsondash':
        ex = F('Secret' + str(idx), excl=(gotype, 'JSONDASH'))
    else:
        ex = F('Skipped' + str(idx), excl=(gotype, '-'))
    tgt.insert(idx, ex)
    return Program(name, kids)


# first characters of Go identifiers that are NOT exported: every ASCII lower-case letter, the underscore, a non-ASCII
# lower-case letter and a letter without case (Go: exported iff the first character is a Unicode upper-case letter)
UNEXPORTED_FIRST = [chr(c) for c in range(ord('a'), ord('z') + 1)] + ['_', '\u00e9', '\u4e16']


def decorate_excluded_names(base, name, where):
    """One unexported int32 member per spelling class of UNEXPORTED_FIRST,
    spread over the positions of the struct reached by `where`."""
    kids = _clone(base.kids)
    _mark_paths(kids, [])
    tgt = kids
    for n in where:
        tgt = [k for k in tgt if k.name == n][0].kids
    n0 = len(tgt)
    for i, ch in enumerate(UNEXPORTED_FIRST):
        typ = ('int32', '*string')[i % 2]
        tgt.insert((i * (n0 + 1)) // len(UNEXPORTED_FIRST) + i, F('%sq%d' % (ch, i), excl=(typ, None)))
    return Program(name, kids)


def shared_base():
    """Base program for decorate_embed_shared: the root and a nested group start with the same two members."""
    return Program('shared', [leaf('A', 'int32'), leaf('B', 'string', 'opt'),
                              group('In', [leaf('A', 'int32'), leaf('B', 'string', 'opt'), leaf('X', 'int64')], 'opt'),
                              group('Lst', [leaf('A', 'int32'), leaf('B', 'string', 'opt'), leaf('Y', 'bool')], 'rep'), leaf('Z', 'bool')])


def decorate_embed_shared(base, name, places):
    """The run [A, B] at the start of the root and/or of nested groups is replaced by ONE embedded struct type
    used in all those places (places: list of struct paths, [] = root)."""
    kids = _clone(base.kids)
    _mark_paths(kids, [])
    for where in places:
        tgt = kids
        for n in where:
            tgt = [k for k in tgt if k.name == n][0].kids
        emb = F('Base', kids=tgt[0:2], embedded=True)
        emb.gotype = 'Base'
        tgt[0:2] = [emb]
    return Program(name, kids)


def decorate_embed(base, name, start, end, twice=False, tag=None):
    """Replace top-level members [start:end) by an embedded struct holding them (tag: a parquet tag on the
    embedded member itself - it names nothing, the fields are still promoted)."""
    kids = _clone(base.kids)
    _mark_paths(kids, [])
    run = kids[start:end]
    if twice and len(run) >= 1:
        inner = F('EmbIn', kids=run, embedded=True)
        emb = F('EmbOut', kids=[inner], embedded=True)
    else:
        emb = F('Emb', kids=run, embedded=True, tag=tag)
    kids[start:end] = [emb]
    return Program(name, kids)


def pair_source(pkg, base, dec, bpk, dpk):
    """Go source of the pair package's record builder: the same symbolic
    values go into the base record and the decorated record."""
    o = ['package %s\n' % pkg, 'import (\n\tb "scratch/%s"\n\td "scratch/%s"\n)\n' % (bpk, dpk)]
    o.append('const vProgramPair = %s\n' % go_str(base.canon() + ' vs ' + dec.canon()))
    base_types = {}

    def index(kids, path):
        for k in kids:
            base_types[tuple(path + [k.name])] = k
            if k.kids is not None:
                index(k.kids, path + [k.name])
    index(base.kids, [])
    cnt = itertools.count()
    L = ['func vPair(maxList, strLen int) (b.Rec, d.Rec) {', '\tvar rb b.Rec', '\tvar rd d.Rec']

    def emit(dkids, bacc, dacc, ind):
        pad = '\t' * ind
        for k in dkids:
            if k.excl is not None:
                continue  # filled inside the decorated package (unexported members)
            if k.embedded:
                emit(k.kids, bacc, dacc + '.' + k.gotype, ind)
                continue
            bk = base_types[tuple(k.base_path)]
            ba, da = bacc + '.' + bk.name, dacc + '.' + k.name
            i = next(cnt)
            if k.is_leaf():
                gen = NONDET[k.typ]
                if k.rep == 'req':
                    L.append('%s{ v := %s; %s = v; %s = v }' % (pad, gen, ba, da))
                elif k.rep == 'opt':
                    L.append('%sif vChoose(2) == 1 { v := %s; v2 := v; %s = &v; %s = &v2 }' % (pad, gen, ba, da))
                else:
                    L.append('%s{ n := vChoose(maxList + 1); for i := 0; i < n; i++ { v := %s; %s = append(%s, v); %s = append(%s, v) } }' % (pad, gen, ba, ba, da, da))
            else:
                bt, dt = 'b.' + bk.gotype, 'd.' + k.gotype
                if k.rep == 'req':
                    emit(k.kids, ba, da, ind)
                elif k.rep == 'opt':
                    L.append('%sif vChoose(2) == 1 {' % pad)
                    L.append('%s\tvar gb%d %s; var gd%d %s' % (pad, i, bt, i, dt))
                    emit(k.kids, 'gb%d' % i, 'gd%d' % i, ind + 1)
                    L.append('%s\t%s = &gb%d; %s = &gd%d' % (pad, ba, i, da, i))
                    L.append('%s}' % pad)
                else:
                    L.append('%s{ n%d := vChoose(maxList + 1); for i%d := 0; i%d < n%d; i%d++ {' % (pad, i, i, i, i, i))
                    L.append('%s\tvar gb%d %s; var gd%d %s' % (pad, i, bt, i, dt))
                    emit(k.kids, 'gb%d' % i, 'gd%d' % i, ind + 1)
                    L.append('%s\t%s = append(%s, gb%d); %s = append(%s, gd%d)' % (pad, ba, ba, i, da, da, i))
                    L.append('%s} }' % pad)
    emit(dec.kids, 'rb', 'rd', 1)
    L += ['\treturn rb, rd', '}\n']
    o.append('\n'.join(L))
    return '\n'.join(o)


# -------------------------------------------------------------------- C15 helpers
C15_TYPES = ['int32', 'int64', 'float32', 'float64', 'bool', 'string']


def nonrepeated_shapes(max_nodes):
    for s, n in grammar_shapes(max_nodes):
        def ok(ms):
            return all(m[1] != 'rep' and (m[0] == 'L' or ok(m[2])) for m in ms)
        if ok(s):
            yield s, n


def c15_program(name, shape, offset=0):
    """Non-repeated shape with lower-case column names, unique group names, leaf types rotating over the six signed/float/bool/string types."""
    cnt = itertools.count()

    def build(ms):
        out = []
        for m in ms:
            idx = next(cnt)
            nm = chr(ord('A') + idx % 26)
            if m[0] == 'L':
                out.append(leaf(nm + 'f', C15_TYPES[(idx + offset) % 6], m[1], tag=nm.lower() + 'f'))
            else:
                out.append(group(nm + 'g', build(m[2]), m[1], tag=nm.lower() + 'g'))
        return out
    return Program(name, build(shape))


def parse_struct_file(src):
    """Parse the struct file parquetgen -parquet emits: {type name: [(field, star, type, tag)]}."""
    import re
    types = {}
    cur = None
    for line in src.splitlines():
        m = re.match(r'^type (\w+) struct \{', line)
        if m:
            cur = m.group(1)
            types[cur] = []
            continue
        if line.startswith('}'):
            cur = None
            continue
        m = re.match(r'^\s*(\w+)\s+(\*?)(\[\])?(\w+)\s+`parquet:"([^"]*)"`', line)
        if m and cur:
            types[cur].append((m.group(1), m.group(2) == '*', m.group(3) is not None, m.group(4), m.group(5)))
    return types


def program_from_types(name, types, root='Rec'):
    def build(tname, base_path):
        out = []
        for (fname, star, isrep, tname2, tag) in types[tname]:
            rep = 'rep' if isrep else ('opt' if star else 'req')
            if tname2 in PRIMS:
                f = leaf(fname, tname2, rep, tag=tag)
            else:
                f = group(fname, build(tname2, None), rep, tag=tag)
                f.gotype = tname2
            out.append(f)
        return out
    return Program(name, build(root, []), root=root)


def same_structure(a_kids, b_kids, path=''):
    """Compare two member lists by column name, kind, type and repetition; returns list of differences; sets base_path on b."""
    diffs = []
    if len(a_kids) != len(b_kids):
        return ['%s: %d members vs %d' % (path or 'root', len(a_kids), len(b_kids))]
    for x, y in zip(a_kids, b_kids):
        p = path + '.' + x.col()
        if x.col() != y.col():
            diffs.append('%s: column name %s vs %s' % (p, x.col(), y.col()))
        if x.rep != y.rep:
            diffs.append('%s: repetition %s vs %s' % (p, x.rep, y.rep))
        if x.is_leaf() != y.is_leaf():
            diffs.append('%s: leaf vs group' % p)
            continue
        if x.is_leaf():
            if x.typ != y.typ:
                diffs.append('%s: type %s vs %s' % (p, x.typ, y.typ))
        else:
            diffs += same_structure(x.kids, y.kids, p)
    return diffs
