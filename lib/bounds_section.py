#!/usr/bin/env python3
"""Regenerates DESIGN.md §14.6 (bounds as registered) from the evidence files."""
import json, glob, re
out = ['### 14.6 Bounds as registered (from the evidence files of the last run)', '']
for f in sorted(glob.glob('/verif/evidence/C*.json')):
    ev = json.load(open(f))
    c = ev['coverage']
    b = c.get('bounds') or {}
    out.append('* **%s** (%s, %s tier; %d jobs, %d paths, %d obligations, %d solver queries, %d traces validated natively, %.0f s): ' % (
        ev['property_id'], ev['level'], ev['tier'], c.get('jobs', 0), c.get('states', 0), c.get('obligations', 0), c.get('solver_queries', 0),
        c.get('traces_validated_against_impl', 0), ev['wall_s']) + '; '.join('%s: %s' % (k, v) for k, v in b.items() if k != 'outside') +
        ('.  *Outside:* %s.' % b['outside'] if 'outside' in b else ''))
sec = '\n'.join(out) + '\n'
p = '/verif/DESIGN.md'
s = open(p).read()
if '### 14.6 Bounds as registered' in s:
    s = s[:s.index('### 14.6 Bounds as registered')].rstrip('\n') + '\n\n' + sec
else:
    s = s.rstrip('\n') + '\n\n' + sec
open(p, 'w').write(s)
print('section written,', len(sec), 'chars')
