#!/usr/bin/env python3
"""Calibration helper: trial.py <maxwall_s> <templates,comma> prog:Func:a,b,c[:stubstats] ...  — runs jobs with a short budget and prints path counts/rates."""
import sys, os
sys.path.insert(0, os.path.dirname(os.path.abspath(__file__)))
from vcommon import *
import progs, c01

maxwall = int(sys.argv[1])
templates = sys.argv[2].split(',')
c = Check('TRIAL', 'model_checking', 'quick')
pgen = build_parquetgen(c)
mod = make_scratch_module(c)
P = c01.core_programs()
jobs, need = [], set()
for i, spec in enumerate(sys.argv[3:]):
    parts = spec.split(':')
    prog, func, args = parts[0], parts[1], [int(x) for x in parts[2].split(',') if x != '']
    need.add(prog)
    j = {'name': '%d-%s' % (i, spec), 'pkg': 'scratch/' + prog, 'func': func, 'args': args, 'opt': {'max_wall_s': maxwall, 'max_steps': int(os.environ.get('VERIF_MAXSTEPS', '5000000'))}}
    if os.environ.get('VERIF_MAXALLOC'):
        j['opt']['max_alloc'] = int(os.environ['VERIF_MAXALLOC'])
    if len(parts) > 3 and parts[3] == 'nostats':
        j['opt']['stub'] = ['(*scratch/%s.stringStats).add' % prog, '(*scratch/%s.stringOptionalStats).add' % prog]
    if os.environ.get('VERIF_STUBS'):
        j['opt']['stub'] = j['opt'].get('stub', []) + [x.replace('PKG', 'scratch/' + prog) for x in os.environ['VERIF_STUBS'].split(',')]
    if len(parts) > 3 and parts[3] == 'modeb':
        j['opt']['mode_b'] = True
    jobs.append(j)
for n in need:
    info = gen_program(c, mod, P[n], templates, pgen)
    if not info['ok']:
        print(n, info['msg'])
os.environ['VERIF_VERBOSE'] = '1'
out = c.engine(mod, ['scratch/' + n for n in need], {}, jobs)
print('load', out.get('load_s'), 'explore', out.get('explore_s'), out.get('load_errors'))
for jr in out.get('jobs') or []:
    for v in (jr.get('violations') or [])[:3]:
        print('   VIOL', jr['name'], v['label'], v['kind'], v.get('msg'), v.get('notes'))
    print('   cpu', round(jr.get('cpu_s', 0), 1), 'labels', {k: v['evaluated'] for k, v in list(jr['labels'].items())[:4]})
