import sys,json
t=sys.stdin.read()
d=json.loads(t[t.index('{'):])
print('confirmed',d['confirmed'],'| apply',d['apply']['rc'],'build',d['build']['rc'],'testfails',d['tests_with_change']['fail_lines'],'| demo without rc',d['demo_without_change']['rc'],'with rc',d['demo_with_change']['rc'])
if not d['confirmed']: print(json.dumps(d,indent=1)[:1500])
