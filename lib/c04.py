"""C04 — the reader decodes every conformant file of the supported subset."""
from faultcommon import *

TEMPLATES4 = c02.TEMPLATES + ['gh_foreign.go.tmpl']


def main(tier, replay):
    c = Check('C04', 'model_checking', tier)
    quick = tier == 'quick'
    P = {k: v for k, v in c01.core_programs().items() if k in ('p1', 'p2', 'p3', 'p4', 'p5', 'flat_bool', 'flat_int64', 'emb2')}
    mod, infos = setup_programs(c, P, TEMPLATES4)
    if replay:
        replay_main(c, replay, infos, NATIVE)
    jobs = []

    def J(name, prog, args, expect=None):
        j = {'name': name, 'pkg': 'scratch/' + prog, 'func': 'HarnessForeign', 'args': args, 'opt': {'stub': c02.nostats(prog)}}
        if expect:
            j['expect'] = expect
        jobs.append(j)
    # HarnessForeign(n1, n2, fs, maxList, strLen, rgMode, pageSplit, levelStrat, codecMode, extras, fault)
    for n in P:
        # every level strategy, one page per chunk, one row group, 3 fixed-structure records, optional thrift fields on/off
        for st in range(5):
            J('strat%d-%s' % (st, n), n, [0, 3, -1, 1, 1, 0, 0, st, st % 3, st % 2, 0])
        # page per record / row group per record / chosen splits
        J('page-per-record-%s' % n, n, [0, 3, 2, 1, 1, 0, 1, -2, 1, 0, 0])
        J('rg-per-record-%s' % n, n, [0, 3, 1, 1, 1, 1, 0, -2, 2, 1, 0])
        # which members of each page's Statistics are present is chosen per page (all are optional in parquet.thrift)
        # a data page without values as first, second or last page of every chunk
        J('empty-page-%s' % n, n, [0, 2, 1, 1, 1, 0, 3, 1, len(n) % 3, 0, 0])
        narrow = len(P[n].columns()) <= 3
        J('stats-members-%s' % n, n, [0, 3, -1, 1, 1, 0, 0, 0, 0, 3 if narrow else 2, 0])
        J('stats-members-paged-%s' % n, n, [1, 1, 0, 1, 1, 0, 1, 2, 1, 2, 0])
        wide = len(P[n].columns()) >= 5
        J('chosen-splits-%s' % n, n, [0, 2 if wide else 3, 1, 1, 1, 2, 2, 0, 0, 0, 0])
        # per-column codec, free record structure
        if wide:
            J('codec-per-column-%s' % n, n, [0, 1, 1, 1, 1, 0, 0, 2, -1, 0, 0])
            J('free-structure-%s' % n, n, [1, 1, 1, 1, 1, 0, 2, 0, 0, 1, 0])
        else:
            J('codec-per-column-%s' % n, n, [1, 1, 1, 1, 1, 0, 0, 2, -1, 0, 0])
            J('free-structure-%s' % n, n, [1, 1, -1, 2, 1, 0, 2, -2, 0, 1, 0])
        # long pages: 9 and 17 records in one page (levels cross the 8-value group boundary; bools the second byte)
        for k in (9, 17):
            for st in ((0, 1, 2, 4) if not quick else (0, 2)):
                J('long%d-strat%d-%s' % (k, st, n), n, [0, k, 1, 1, 1, 0, 0, st, 0, 0, 0])
        if not quick and len(P[n].columns()) <= 3:
            J('per-stream-strat-%s' % n, n, [0, 2, 2, 1, 1, 0, 1, -1, 0, 0, 0])
    # 520 / 1030 levels in one bit-packed run (65 / 129 groups: two-byte run header)
    for k in ((65,) if quick else (65, 129)):
        J('bitpacked-%d-groups-flat_int64' % k, 'flat_int64', [0, k * 8, 1, 1, 1, 0, 0, 0, 0, 0, 0])
    # one bit-packed run of 257 groups at width 1 and of 129 groups at width 2: width x groups crosses 256
    J('bitpacked-257-groups-w1-flat_int64', 'flat_int64', [0, 2056, 1, 1, 1, 0, 0, 0, 0, 0, 0])
    jobs[-1]['opt']['max_steps'] = 80000000
    J('bitpacked-129-groups-w2-p4', 'p4', [0, 1030, 1, 1, 1, 0, 0, 0, 0, 0, 0])
    jobs[-1]['opt']['max_steps'] = 80000000
    # pages of exactly 8 records (bool values fill whole bytes) followed by further pages
    for n in ('flat_bool', 'p3'):
        for fsx in (1, 2):
            J('pages-of-eight-%s-fs%d' % (n, fsx), n, [0, 20, fsx, 1, 1, 0, 4, 2, fsx % 3, 0, 0])
    # RLE runs of 8200 levels (run header of three LEB128 bytes)
    for fs in ((1,) if quick else (0, 1)):
        J('rle-run-8200-flat_int64-fs%d' % fs, 'flat_int64', [0, 8200, fs, 1, 1, 0, 0, 1, 0, 0, 0])
        jobs[-1]['opt'].update(max_steps=600000000, max_alloc=400000)
    J('sens-rows', 'p1', [0, 2, 1, 1, 1, 0, 0, 1, 0, 0, 1], expect='Rows')
    run_program_jobs(c, mod, infos, jobs, native_templates=NATIVE)
    c.programs = len(P)
    c.bounds = {'records': '3 fixed-structure records (three structures), or 1 free + 1 fixed; long pages of 9, 17 and 520 (1030 thorough) records',
                'level streams': 'five run-segmentation strategies (single bit-packed run with SYMBOLIC padding values in the last group; maximal RLE runs incl. length 1; RLE for repeats >= 2 else bit-packed groups; every RLE run split in two; bit-packed prefix + RLE tail); bit-packed runs of 65, 129 and 257 groups (width 1) and 129 groups (width 2); RLE runs of 8200 levels (three-byte header)',
                'pages / row groups': 'one page per chunk, one page per record, chosen at every record boundary, a page without values at the start / after the first page / at the end of every chunk, pages of exactly eight records; one row group, one per record, chosen', 'codec': 'fixed, or chosen independently per column',
                'optional thrift fields': 'created_by, key_value_metadata, crc present or absent; page Statistics absent / null_count only / min_value+max_value only / all six members, chosen once per file (per page for programs of <= 3 columns); in the same jobs the encoding field of a level kind the column does not store is any enum value 0..9 and ColumnChunk.file_offset (deprecated) is the chunk start, 0, or the position after the chunk',
                'outside': 'NOT decided: real snappy streams with literals and copies (A3: the snappy decoder is a stub) and the thrift wire form of optional fields (A2); more than 3 runs kinds per stream beyond the five strategies'}
    c.assumptions = [STUB_ASSUMPTIONS[k] for k in ('A1', 'A2', 'A3', 'A4', 'A6')] + ['the foreign writer is written from the parquet-format text and the Dremel paper; natively (replay) it emits real thrift/snappy/gzip bytes']
    c.finish('paths enumerate the choices of the foreign writer (strategy, page and row-group splits, per-column codec) and record structure; padding values and column values are symbolic; a path is non-trivial when at least one obligation went to the solver',
             'whole generated reader + rle.Read/readRLE/readRLEBitPacked/readLEB128/bitpack.Unpack + DoRead trimming + GetBools executed from SSA on files produced by an in-harness foreign writer; oracle: exactly the encoded records come back, Rows(), Next() count, Error()==nil')
