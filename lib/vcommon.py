"""Shared driver code for the checks: scratch space, engine invocation,
triage of violations (known findings, native replay), evidence, exit protocol."""
import atexit, hashlib, json, os, re, shutil, subprocess, sys, tempfile, time

REPO = '/repo'
VERIF = '/verif'
GOSYM = os.path.join(VERIF, 'bin', 'gosym')
HARNESS = os.path.join(VERIF, 'harness')
MODPATH = 'github.com/parsyl/parquet'

GOENV = dict(os.environ)
GOENV.update({'GOFLAGS': '-mod=mod', 'GOPROXY': 'off', 'GOSUMDB': 'off', 'GOTOOLCHAIN': 'local'})

STUB_ASSUMPTIONS = {
    'A1': 'thrift: TSerializer.Write is a deterministic injective function of the struct; its length is arbitrary (symbolic 1..2^20 in mode B, a small concrete length in mode A)',
    'A2': 'thrift: PageHeader/FileMetaData.Read consume exactly the encoded bytes, tolerate short reads, return any transport error; decoding at a non-header position is flagged as misaligned (not assumed to fail)',
    'A3': 'snappy: Encode output depends on src only; Decode(Encode(x)) == x; Decode of anything else fails',
    'A4': 'gzip: Writer/Reader are a correct codec pair; Reader on anything else fails',
    'A5': 'bytebufferpool: Get returns an exclusively owned buffer of length 0 (sync.Pool is race-free)',
    'A6': 'models of bytes.Buffer, encoding/binary.Read/Write, io.CopyN/ReadAll match the standard library (validated by native replay of every counterexample and by the concrete-mode differential)',
    'A7': 'only nil-ness of errors matters (fmt.Errorf/errors.New return a fresh non-nil error)',
}


def log(*a):
    print(*a, flush=True)


def sh(cmd, cwd=None, env=None, timeout=None, check=False):
    p = subprocess.run(cmd, cwd=cwd, env=env or GOENV, stdout=subprocess.PIPE, stderr=subprocess.STDOUT,
                       text=True, timeout=timeout)
    if check and p.returncode != 0:
        raise RuntimeError('command failed: %s\n%s' % (cmd, p.stdout))
    return p.returncode, p.stdout


def load_known():
    p = os.path.join(VERIF, 'known_findings.json')
    if not os.path.exists(p):
        return []
    return json.load(open(p))


class Check:
    def __init__(self, pid, level, tier, design_ref=''):
        self.pid = pid
        self.level = level
        self.tier = tier
        self.seed = int(os.environ.get('VERIF_SEED', '1') or '1')
        self.t0 = time.time()
        base = os.environ.get('TMPDIR', '/tmp')
        self.scratch = tempfile.mkdtemp(prefix='verif.%s.' % pid, dir=base)
        atexit.register(self.cleanup)
        self.jobs = []          # (job spec, job result, context)
        self.inconclusive = []  # reasons
        self.violations = []    # confirmed, not known
        self.known_hits = {}    # key -> what
        self.expected_ok = []   # names of vacuity/seeded jobs that were violated as expected
        self.traces_validated = 0
        self.assumptions = []
        self.bounds = {}
        self.programs = 0
        self.extra = {}
        self.xcheck = None
        self.samples = []
        self.replay_ctx = {}    # job name -> dict(kind='repo'|'scratch', ...)
        self.known = [k for k in load_known() if k.get('property') == pid]
        self.load_s = 0.0
        self.engine_runs = 0
        if not os.path.exists(GOSYM):
            rc, out = sh(['go', 'build', '-o', GOSYM, '.'], cwd=os.path.join(VERIF, 'engine'))
            if rc != 0:
                log(out)
                self.fail_inconclusive('cannot build the engine')

    def cleanup(self):
        if os.environ.get('VERIF_KEEP'):
            log('scratch kept at', self.scratch)
            return
        shutil.rmtree(self.scratch, ignore_errors=True)

    # ------------------------------------------------------------ engine
    def engine(self, dir, patterns, overlay, jobs, ctx=None, workers=16, timeout_ms=None, record=0, timeout_s=None):
        """Run gosym; returns the parsed output.  ctx: dict merged into every
        job's replay context."""
        self.engine_runs += 1
        if timeout_ms is None:
            timeout_ms = 60000 if self.tier == 'quick' else 300000
        flt = os.environ.get('VERIF_JOBS')
        if flt:
            jobs = [j for j in jobs if re.search(flt, j['name']) or j['name'].startswith('diff-')]
        for j in jobs:
            j.setdefault('opt', {}).setdefault('max_wall_s', 150 if self.tier == 'quick' else 3600)
        budget = timeout_s or (1500 if self.tier == 'quick' else 6 * 3600)
        spec = {'dir': dir, 'patterns': patterns, 'overlay': overlay, 'jobs': jobs, 'workers': workers,
                'query_timeout_ms': timeout_ms, 'record': record,
                # the engine stops starting paths before the driver's own timeout, so that what was found is reported
                'deadline_s': max(60, budget - (200 if self.tier == 'quick' else 900)),
                'out': os.path.join(self.scratch, 'out%d.json' % self.engine_runs)}
        if record:
            spec['transcript_dir'] = os.path.join(self.scratch, 'tr%d' % self.engine_runs)
        sp = os.path.join(self.scratch, 'spec%d.json' % self.engine_runs)
        json.dump(spec, open(sp, 'w'))
        try:
            p = subprocess.run([GOSYM, sp], env=GOENV, stdout=subprocess.PIPE, stderr=subprocess.STDOUT, text=True,
                               timeout=budget)
        except subprocess.TimeoutExpired:
            self.inconclusive.append('engine run exceeded its wall-clock budget')
            return {'jobs': [], 'load_errors': {}, 'skipped': {}}
        if p.returncode != 0 or not os.path.exists(spec['out']):
            log(p.stdout[-4000:])
            self.inconclusive.append('engine failed (exit %d)' % p.returncode)
            return {'jobs': [], 'load_errors': {}, 'skipped': {}}
        out = json.load(open(spec['out']))
        self.load_s += out.get('load_s', 0)
        if out.get('error'):
            self.inconclusive.append('engine: ' + out['error'])
        if os.environ.get('VERIF_VERBOSE'):
            for jr in out.get('jobs') or []:
                log('  %-40s paths=%-7d oblig=%-8d viol=%-3d q=%-7d solver=%.1fs wall=%.1fs %s %s' % (jr['name'], jr['paths'], jr['obligations'], jr['n_violations'], jr['solver_queries'], jr['solver_time_s'], jr['wall_s'], 'TRUNC' if jr.get('truncated') else '', list((jr.get('unsupported') or {}).items())[:2]))
        byname = {j['name']: j for j in jobs}
        for jr in out.get('jobs') or []:
            c = dict(ctx or {})
            c.update({'dir': dir, 'overlay': overlay})
            self.jobs.append((byname[jr['name']], jr, c))
        for name, why in list((out.get('skipped') or {}).items())[:3]:
            errs = [e for v in (out.get('load_errors') or {}).values() for e in v][:3]
            self.inconclusive.append('job %s skipped: %s %s' % (name, why, errs))
        if record and os.path.isdir(spec.get('transcript_dir', '')):
            self.cross_check(spec['transcript_dir'])
        return out

    def cross_check(self, trdir):
        files = sorted(os.path.join(trdir, f) for f in os.listdir(trdir))[:400]
        if not files:
            return
        res = self.xcheck or {'solvers': {}, 'transcripts': 0}
        res['transcripts'] += len(files)
        for name, cmd in (('z3-new 5.1.0', 'z3-new -in'), ('cvc5 1.0', 'cvc5 --incremental --lang=smt2 --fp-exp')):
            try:
                p = subprocess.run([GOSYM, 'xcheck', cmd] + files, stdout=subprocess.PIPE, stderr=subprocess.STDOUT,
                                   text=True, timeout=1800)
                r = json.loads(p.stdout.strip().splitlines()[-1])
            except Exception as e:  # noqa
                r = {'error': str(e)}
            acc = res['solvers'].setdefault(name, {'queries': 0, 'agree': 0, 'disagree': 0, 'unknown': 0, 'details': []})
            for k in ('queries', 'agree', 'disagree', 'unknown'):
                acc[k] += r.get(k, 0)
            acc['details'] += (r.get('details') or [])[:5]
            if r.get('disagree', 0) > 0:
                self.inconclusive.append('solver disagreement with %s: %s' % (name, (r.get('details') or [])[:3]))
        self.xcheck = res

    # ------------------------------------------------------------ replay
    def write_replay(self, job, viol, ctx):
        os.makedirs(os.path.join(VERIF, 'replays'), exist_ok=True)
        body = {'property': self.pid, 'job': job['name'], 'pkg': job['pkg'], 'func': job['func'], 'args': job['args'],
                'label': viol['label'], 'kind': viol['kind'], 'msg': viol.get('msg', ''), 'notes': viol.get('notes') or [],
                'draws': viol.get('draws') or [], 'ctx': {k: v for k, v in ctx.items() if k not in ('dir', 'overlay')}}
        h = hashlib.sha1(json.dumps(body, sort_keys=True).encode()).hexdigest()[:10]
        path = os.path.join(VERIF, 'replays', '%s-%s.json' % (self.pid, h))
        json.dump(body, open(path, 'w'), indent=1)
        return path

    def native_replay(self, replay_path, ctx):
        """Compile the harness natively against the current /repo with the
        real libraries and run it on the solver's values.  Returns
        (reproduced: bool, output)."""
        body = json.load(open(replay_path))
        c = body.get('ctx', {})
        c.update({k: v for k, v in (ctx or {}).items() if k in ('dir', 'overlay')})
        builder = c.get('replay')
        if builder is None:
            return None, 'no native replay driver for this job'
        fn = REPLAY_BUILDERS[builder]
        return fn(self, body, c, replay_path)

    # ------------------------------------------------------------ triage
    def match_known(self, job, viol):
        for k in self.known:
            if k.get('kind') != 'finding' or 'shapes' in k:
                continue  # shape-keyed findings (C05) are matched by the check itself, never as a wildcard
            key = k['key']
            if 'job' in key and not re.search(key['job'], job['name']):
                continue
            if 'label' in key and not re.search(key['label'], viol['label']):
                continue
            if 'msg' in key and not re.search(key['msg'], viol.get('msg') or ''):
                continue
            if 'note' in key and not any(re.search(key['note'], n) for n in (viol.get('notes') or [''])):
                continue
            return k
        return None

    def triage(self):
        for job, jr, ctx in self.jobs:
            expect = job.get('expect')
            viols = jr.get('violations') or []
            if expect:
                hit = [v for v in viols if v['kind'] in ('assert', 'concrete', 'panic') and re.search(expect, v['label'])]
                if not hit:
                    self.inconclusive.append('vacuity/sensitivity job %s was NOT violated (expected %s)' % (job['name'], expect))
                else:
                    self.expected_ok.append(job['name'])
                    # engine <-> native agreement on the seeded counterexample
                    if ctx.get('replay') and ctx.get('validate_expected', True) and not job.get('no_native'):
                        rp = self.write_replay(job, hit[0], ctx)
                        ok, out = self.native_replay(rp, ctx)
                        os.remove(rp)
                        if ok:
                            self.traces_validated += 1
                        elif ok is False:
                            self.inconclusive.append('engine/native disagreement on seeded fault of %s: %s' % (job['name'], out[-600:]))
                continue
            for u, n in (jr.get('unsupported') or {}).items():
                self.inconclusive.append('%s: unsupported x%d: %s' % (job['name'], n, u))
            if jr.get('truncated'):
                self.inconclusive.append('%s: path budget exceeded' % job['name'])
            for e in (jr.get('solver_errors') or [])[:2]:
                self.inconclusive.append('%s: solver error %s' % (job['name'], e))
            if not ctx.get('no_reach') and (jr.get('reach') or {}).get('end', 0) == 0 and not viols:
                self.inconclusive.append('%s: no path reached the end of the harness (vacuous)' % job['name'])
            seen = set()
            for v in viols:
                if v['kind'] == 'unknown':
                    self.inconclusive.append('%s: solver unknown on %s' % (job['name'], v['label']))
                    continue
                k = self.match_known(job, v)
                if k is not None:
                    self.known_hits[json.dumps(k['key'], sort_keys=True)] = k['what']
                    continue
                sig = (v['label'], (v.get('msg') or '')[:80], tuple(v.get('notes') or [])[:4])
                if sig in seen:
                    continue
                seen.add(sig)
                if len(seen) > 6:
                    continue
                if len(self.violations) >= 5:
                    self.extra['further_counterexamples_not_replayed'] = self.extra.get('further_counterexamples_not_replayed', 0) + 1
                    continue
                rp = self.write_replay(job, v, ctx)
                ok, out = self.native_replay(rp, ctx)
                if ok:
                    self.violations.append((job, v, rp))
                elif ok is None:
                    # no native driver for this job: an engine counterexample that cannot be replayed against
                    # the real build is never reported as a violation
                    self.inconclusive.append('%s: counterexample for "%s" could not be replayed natively (%s)' % (job['name'], v['label'], out[-200:]))
                else:
                    self.inconclusive.append('%s: counterexample for "%s" did not reproduce natively (engine/stub disagreement): %s' % (job['name'], v['label'], out[-400:]))

    # ------------------------------------------------------------ evidence
    def evidence(self, rule, explanation=''):
        jobs = [jr for j, jr, c in self.jobs]
        funcs = {}
        labels = {}
        samples = list(self.samples)
        tot = dict(paths=0, nontriv=0, steps=0, oblig=0, disch=0, queries=0, stime=0.0, ifconv=0, aborted=0, fb=0)
        reordered = set()
        for (j, jr, c) in self.jobs:
            tot['paths'] += jr['paths']
            tot['nontriv'] += jr['nontrivial_paths']
            tot['steps'] += jr['steps']
            tot['oblig'] += jr['obligations']
            tot['disch'] += jr['discharged']
            tot['queries'] += jr['solver_queries']
            tot['stime'] += jr['solver_time_s']
            tot['ifconv'] += jr['ifconverted']
            tot['aborted'] += jr['aborted_paths']
            tot['fb'] += jr.get('cvc5_fallbacks', 0)
            for f, n in (jr.get('functions') or {}).items():
                funcs[f] = funcs.get(f, 0) + n
            for l, s in (jr.get('labels') or {}).items():
                d = labels.setdefault(l, {'evaluated': 0, 'discharged': 0, 'symbolic': 0})
                for k in d:
                    d[k] += s[k]
            for r in jr.get('reordered_loads') or []:
                reordered.add(r)
            if len(samples) < 8:
                for s in (jr.get('samples') or [])[:2]:
                    samples.append({'job': jr['name'], 'func': jr['func'], 'args': jr['args'], 'decisions': s['decisions'][:60],
                                    'notes': s.get('notes'), 'symbolic_obligations': s['symbolic_obligations']})
        # keep only functions of the code under test in the listing (the rest are std/harness)
        under_test = {f: n for f, n in funcs.items() if 'parsyl/parquet' in f or f.startswith('scratch') or f.startswith('(*scratch') or f.startswith('(scratch')}
        cov = {
            'states': max(tot['paths'], 0), 'transitions': tot['steps'],
            'traces_validated_against_impl': self.traces_validated,
            'samples': samples or [{'note': 'no path explored'}],
            'evaluations': tot['paths'], 'distinct_nontrivial': self.extra.get('distinct_nontrivial_override', tot['nontriv']),
            'rule': rule,
            'obligations': tot['oblig'], 'discharged': tot['disch'],
            'solver_queries': tot['queries'], 'solver_time_s': round(tot['stime'], 3),
            'solver': 'z3 4.8.12 (-in, one scope per path); unknown answers are retried on cvc5 1.0 --solve-bv-as-int=sum',
            'cvc5_fallback_unsat': tot['fb'],
            'ifconverted_branches': tot['ifconv'], 'aborted_paths': tot['aborted'],
            'functions_encoded': dict(sorted(under_test.items())),
            'functions_encoded_total': len(funcs),
            'labels': labels, 'bounds': self.bounds, 'programs': self.programs,
            'jobs': len(self.jobs), 'reordered_loads': sorted(reordered),
            'vacuity': {'expected_violations_seen': self.expected_ok},
            'cross_checked': self.xcheck or 'not run in this tier',
            'unwinding_ok': not any('step budget' in r for r in self.inconclusive),
            'known_findings_hit': sorted(self.known_hits.values()),
            'inconclusive': self.inconclusive[:20],
            'exhaustive': bool(self.extra.get('exhaustive', False)),
            'explanation': explanation,
            'disagreements_checked': tot['oblig'],
        }
        cov.update({k: v for k, v in self.extra.items() if k not in ('exhaustive', 'distinct_nontrivial_override')})
        ev = {'property_id': self.pid, 'tier': self.tier, 'seed': self.seed, 'level': self.level,
              'coverage': cov, 'assumptions': self.assumptions, 'wall_s': round(time.time() - self.t0, 2),
              'violations': len(self.violations)}
        os.makedirs(os.path.join(VERIF, 'evidence'), exist_ok=True)
        json.dump(ev, open(os.path.join(VERIF, 'evidence', self.pid + '.json'), 'w'), indent=1)
        return ev

    def finish(self, rule, explanation=''):
        self.triage()
        self.evidence(rule, explanation)
        for what in sorted(set(self.known_hits.values())):
            log('KNOWN-FINDING: property=%s %s' % (self.pid, what))
        if self.violations:
            for job, v, rp in self.violations:
                log('VIOLATION property=%s replay=%s' % (self.pid, rp))
                log('  job=%s label=%r kind=%s %s notes=%s' % (job['name'], v['label'], v['kind'], v.get('msg', ''), v.get('notes')))
            sys.exit(1)
        if self.inconclusive:
            seen = set()
            for r in self.inconclusive:
                if r not in seen:
                    seen.add(r)
                    log('INCONCLUSIVE property=%s reason=%s' % (self.pid, r))
            sys.exit(2)
        tot_paths = sum(jr['paths'] for j, jr, c in self.jobs)
        tot_ob = sum(jr['obligations'] for j, jr, c in self.jobs)
        log('OK property=%s tier=%s jobs=%d paths=%d obligations=%d wall=%.1fs' % (self.pid, self.tier, len(self.jobs), tot_paths, tot_ob, time.time() - self.t0))
        sys.exit(0)

    def fail_inconclusive(self, why):
        self.inconclusive.append(why)
        self.finish('n/a')


# ---------------------------------------------------------------- replay builders

def _intr_native(pkgname, dst_dir, float_helper=True):
    out = []
    for src, dst in (('vintr_native.go.tmpl', 'zz_verif_i.go'), ('vintr_native_float.go.tmpl', 'zz_verif_f.go')):
        txt = open(os.path.join(HARNESS, src)).read().replace('PKGNAME', pkgname)
        p = os.path.join(dst_dir, dst)
        open(p, 'w').write(txt)
        out.append(p)
    return out


def _test_file(pkgname, func, args, dst):
    call = '%s(%s)' % (func, ', '.join(str(a) for a in args))
    txt = '''package %s

import "testing"

func vReplayOnce(t *testing.T) (aborted bool) {
	defer func() {
		if r := recover(); r != nil {
			if a, ok := r.(vAbort); ok {
				t.Logf("REPLAY-ABORT %%s", a.why)
				aborted = true
				return
			}
			vFailures = append(vFailures, "panic")
			t.Logf("REPLAY-PANIC %%v", r)
		}
	}()
	%s
	return false
}

func TestVerifReplay(t *testing.T) {
	vLoadReplay()
	aborted := vReplayOnce(t)
	if len(vFailures) > 0 {
		t.Fatalf("REPLAY-FAILED %%q", vFailures)
	}
	hasFault := false
	for _, d := range vDraws {
		if d.Kind == "fault" {
			hasFault = true
		}
	}
	if !hasFault || aborted {
		return
	}
	// the fault / short-read index counts calls of the abstract file; the real
	// libraries make a different number of calls (longer thrift headers), so
	// scan the index natively with the same values
	for k := int64(1); k <= 20000; k++ {
		vPos, vFailures, vExhausted = 0, nil, false
		vFaultOverride, vFaultWasFired = k, false
		vReplayOnce(t)
		if len(vFailures) > 0 {
			t.Fatalf("REPLAY-FAILED at native fault index %%d: %%q", k, vFailures)
		}
		if !vFaultWasFired {
			break
		}
	}
}
''' % (pkgname, call)
    open(dst, 'w').write(txt)


def _batch_test_file(pkgname, func, args, dst):
    call = '%s(%s)' % (func, ', '.join(str(a) for a in args))
    txt = '''package %s

import (
	"fmt"
	"strings"
	"testing"
)

func TestVerifBatch(t *testing.T) {
	for _, b := range vLoadBatch() {
		vDraws, vPos, vFailures, vObs, vExhausted = b.Draws, 0, nil, nil, false
		aborted := false
		func() {
			defer func() {
				if r := recover(); r != nil {
					if _, ok := r.(vAbort); ok {
						aborted = true
						return
					}
					vFailures = append(vFailures, "panic")
				}
			}()
			%s
		}()
		if aborted {
			fmt.Printf("RUN %%d ABORT\\n", b.Run)
			continue
		}
		fmt.Printf("RUN %%d OBS %%s FAILED %%d\\n", b.Run, strings.Join(vObs, ","), len(vFailures))
	}
}
''' % (pkgname, call)
    open(dst, 'w').write(txt)


def differential(check, job, ctx, runs=100):
    """Engine-vs-native differential: the harness runs in the engine on
    pseudo-random concrete draws (values seeded by VERIF_SEED) and natively on
    the same draws; observations (vObserve) and pass/fail must agree."""
    j = dict(job)
    j['name'] = 'diff-' + job['name']
    j['opt'] = dict(job.get('opt') or {})
    j['opt'].update({'concrete_runs': runs, 'concrete_seed': check.seed})
    first = len(check.jobs)
    out = check.engine(ctx['dir'], [job['pkg']], ctx.get('overlay') or {}, [j], ctx=ctx)
    res = (out.get('jobs') or [None])[0]
    check.jobs = check.jobs[:first]  # differential runs are not part of the symbolic exploration
    if res is None:
        check.inconclusive.append('differential run of %s did not start' % job['name'])
        return 0
    cruns = [r for r in (res.get('concrete_runs') or []) if not r['aborted']]
    if not cruns:
        return 0
    d = tempfile.mkdtemp(prefix='diff.', dir=check.scratch)
    bf = os.path.join(d, 'batch.json')
    json.dump([{'run': r['run'], 'draws': r['draws']} for r in cruns], open(bf, 'w'))
    env = dict(GOENV)
    env['VERIF_REPLAY_BATCH'] = bf
    if ctx.get('replay') == 'repo_pkg':
        rel, pkgname = ctx['rel'], ctx['pkgname']
        repl = {}
        for i, h in enumerate(ctx['harness_files']):
            repl[os.path.normpath(os.path.join(REPO, rel, 'zz_verif_h%d.go' % i))] = h
        for p in _intr_native(pkgname, d):
            repl[os.path.normpath(os.path.join(REPO, rel, os.path.basename(p)))] = p
        tf = os.path.join(d, 'zz_verif_batch_test.go')
        _batch_test_file(pkgname, job['func'], job['args'], tf)
        repl[os.path.normpath(os.path.join(REPO, rel, 'zz_verif_batch_test.go'))] = tf
        ov = os.path.join(d, 'overlay.json')
        json.dump({'Replace': repl}, open(ov, 'w'))
        rc, outp = sh(['go', 'test', '-v', '-vet=off', '-count=1', '-run', 'TestVerifBatch', '-overlay', ov, './' + rel if rel != '.' else '.'], cwd=REPO, env=env, timeout=900)
    else:
        nat = native_module(check, os.path.dirname(ctx['pkgdir'].rstrip('/')))
        pd = os.path.join(nat, os.path.basename(ctx['pkgdir'].rstrip('/')))
        tf = os.path.join(pd, 'zz_verif_batch_test.go')
        _batch_test_file(ctx['pkgname'], job['func'], job['args'], tf)
        rc, outp = sh(['go', 'test', '-v', '-vet=off', '-count=1', '-run', 'TestVerifBatch', '.'], cwd=pd, env=env, timeout=900)
        os.remove(tf)
    native = {}
    for line in outp.splitlines():
        m = re.match(r'RUN (\d+) (ABORT|OBS (\S*) FAILED (\d+))', line)
        if m:
            native[int(m.group(1))] = None if m.group(2) == 'ABORT' else (m.group(3), int(m.group(4)))
    agree = 0
    for r in cruns:
        n = native.get(r['run'])
        e = (','.join(r.get('obs') or []), len(r.get('failed') or []))
        if n is None:
            check.inconclusive.append('differential %s run %d: native run aborted or missing (engine did not): %s' % (job['name'], r['run'], outp[-300:]))
            break
        if n[0] != e[0] or (n[1] > 0) != (e[1] > 0):
            check.inconclusive.append('ENGINE/NATIVE DISAGREEMENT in %s run %d: engine obs=%s failed=%d, native obs=%s failed=%d' % (job['name'], r['run'], e[0][:80], e[1], n[0][:80], n[1]))
            break
        agree += 1
    check.traces_validated += agree
    check.extra['differential_runs'] = check.extra.get('differential_runs', 0) + agree
    return agree


def _judge(body, rc, out):
    if 'replay vector mismatch' in out:
        return False, out
    if 'REPLAY-FAILED' in out or 'DATA RACE' in out:
        return True, out
    if 'REPLAY-ABORT' in out and 'REPLAY-FAILED' not in out:
        return False, out
    if rc != 0 and ('panic:' in out or 'fatal error' in out):
        return True, out
    return False, out


def replay_repo_pkg(check, body, ctx, replay_path):
    """Harness lives in a package of /repo (overlay): go test -overlay."""
    rel = ctx['rel']            # e.g. internal/bitpack
    pkgname = ctx['pkgname']
    d = tempfile.mkdtemp(prefix='replay.', dir=check.scratch)
    repl = {}
    for i, h in enumerate(ctx['harness_files']):
        repl[os.path.normpath(os.path.join(REPO, rel, 'zz_verif_h%d.go' % i))] = h
    for p in _intr_native(pkgname, d):
        repl[os.path.normpath(os.path.join(REPO, rel, os.path.basename(p)))] = p
    for i, h in enumerate(ctx.get('native_files', [])):
        repl[os.path.normpath(os.path.join(REPO, rel, 'zz_verif_n%d.go' % i))] = h
    tf = os.path.join(d, 'zz_verif_replay_test.go')
    _test_file(pkgname, body['func'], body['args'], tf)
    repl[os.path.normpath(os.path.join(REPO, rel, 'zz_verif_replay_test.go'))] = tf
    ov = os.path.join(d, 'overlay.json')
    json.dump({'Replace': repl}, open(ov, 'w'))
    env = dict(GOENV)
    env['VERIF_REPLAY'] = replay_path
    rc, out = sh(['go', 'test', '-vet=off', '-count=1', '-run', 'TestVerifReplay', '-overlay', ov, './' + rel if rel != '.' else '.'], cwd=REPO, env=env, timeout=600)
    return _judge(body, rc, out)


def replay_scratch_pkg(check, body, ctx, replay_path):
    """Harness lives in a generated package of the scratch module: a native
    copy of the module (native intrinsics, real thrift/snappy/gzip accessors)
    is built once and go test runs in the package's copy."""
    src = ctx['pkgdir']
    pkgname = ctx['pkgname']
    nat = native_module(check, os.path.dirname(src.rstrip('/')))
    d = os.path.join(nat, os.path.basename(src.rstrip('/')))
    if not os.path.isdir(d):
        return None, 'package has no native copy'
    tf = os.path.join(d, 'zz_verif_replay_test.go')
    _test_file(pkgname, body['func'], body['args'], tf)
    env = dict(GOENV)
    env['VERIF_REPLAY'] = replay_path
    race = ['-race'] if ctx.get('race') else []
    rc, out = sh(['go', 'test'] + race + ['-vet=off', '-count=1', '-run', 'TestVerifReplay', '.'], cwd=d, env=env, timeout=900)
    os.remove(tf)
    return _judge(body, rc, out)


REPLAY_BUILDERS = {'repo_pkg': replay_repo_pkg, 'scratch_pkg': replay_scratch_pkg}


def parse_args(argv):
    tier = os.environ.get('VERIF_TIER') or 'quick'
    replay = None
    i = 0
    while i < len(argv):
        if argv[i] == '--tier':
            tier = argv[i + 1]
            i += 2
        elif argv[i] == '--replay':
            replay = argv[i + 1]
            i += 2
        else:
            i += 1
    return tier, replay


def intr_sym(pkgname, scratch, name='vintr_sym.go'):
    p = os.path.join(scratch, '%s_%s' % (pkgname, name))
    open(p, 'w').write(open(os.path.join(HARNESS, 'vintr_sym.go.tmpl')).read().replace('PKGNAME', pkgname))
    return p


def repo_overlay(check, rel, pkgname, harness_files, native_files=()):
    """Overlay that injects harness files into a package of /repo, and the
    replay context for it."""
    ov = {}
    for i, h in enumerate(harness_files):
        ov[os.path.normpath(os.path.join(REPO, rel, 'zz_verif_h%d.go' % i))] = h
    ov[os.path.normpath(os.path.join(REPO, rel, 'zz_verif_i.go'))] = intr_sym(pkgname, check.scratch)
    ctx = {'replay': 'repo_pkg', 'rel': rel, 'pkgname': pkgname, 'harness_files': list(harness_files),
           'native_files': list(native_files)}
    return ov, ctx


def make_scratch_module(check, name='mod'):
    """A Go module `scratch` that replaces parsyl/parquet with /repo."""
    d = os.path.join(check.scratch, name)
    os.makedirs(d, exist_ok=True)
    gomod = open(os.path.join(REPO, 'go.mod')).read()
    # reuse the repository's own requirements so that nothing needs fetching
    reqs = gomod.split('\n', 1)[1]
    open(os.path.join(d, 'go.mod'), 'w').write('module scratch\n' + reqs + '\nrequire %s v0.0.0\nreplace %s => %s\n' % (MODPATH, MODPATH, REPO))
    shutil.copy(os.path.join(REPO, 'go.sum'), os.path.join(d, 'go.sum'))
    return d


def build_parquetgen(check):
    out = os.path.join(check.scratch, 'parquetgen')
    if os.path.exists(out):
        return out
    rc, txt = sh(['go', 'build', '-o', out, './cmd/parquetgen'], cwd=REPO)
    if rc != 0:
        check.inconclusive.append('cannot build parquetgen from the working tree: ' + txt[-400:])
        return None
    return out


def gen_program(check, mod, prog, templates, pgen, determinism=False, pkgname=None, harness=True):
    """Write the struct file, run the fresh parquetgen, add harness files.
    Returns dict(pkg, dir, ok, msg)."""
    name = pkgname or prog.name
    d = os.path.join(mod, name)
    os.makedirs(d, exist_ok=True)
    open(os.path.join(d, 's.go'), 'w').write(prog.struct_source(name))
    info = {'pkg': 'scratch/' + name, 'dir': d, 'name': name, 'ok': True, 'msg': '', 'canon': prog.canon()}
    try:
        p = subprocess.run([pgen, '-input', 's.go', '-type', prog.root, '-package', name, '-output', 'parquet.go'], cwd=d, env=GOENV,
                           stdout=subprocess.PIPE, stderr=subprocess.STDOUT, text=True, timeout=60)
        rc, out = p.returncode, p.stdout
    except subprocess.TimeoutExpired:
        rc, out = 124, 'parquetgen timed out'
    if rc != 0 or not os.path.exists(os.path.join(d, 'parquet.go')):
        info.update(ok=False, msg='gen-fail: ' + out.strip()[-300:])
        return info
    if determinism:
        first = open(os.path.join(d, 'parquet.go')).read()
        subprocess.run([pgen, '-input', 's.go', '-type', prog.root, '-package', name, '-output', 'parquet2.go.txt'], cwd=d, env=GOENV,
                       stdout=subprocess.PIPE, stderr=subprocess.STDOUT, text=True, timeout=60)
        second = open(os.path.join(d, 'parquet2.go.txt')).read() if os.path.exists(os.path.join(d, 'parquet2.go.txt')) else ''
        if first != second:
            info.update(ok=False, msg='nondeterministic: two runs of parquetgen differ')
            return info
    if not harness:
        return info
    open(os.path.join(d, 'zz_verif_h0.go'), 'w').write(prog.harness_source(name))
    for i, t in enumerate(templates):
        txt = open(os.path.join(HARNESS, t)).read().replace('PKGNAME', name)
        fn = ('zz_verif_sym_%d.go' if t.endswith('_sym.go.tmpl') else 'zz_verif_t%d.go') % i
        open(os.path.join(d, fn), 'w').write(txt)
    shutil.copy(intr_sym(name, check.scratch), os.path.join(d, 'zz_verif_i.go'))
    write_pkg_manifest(d, name, templates, {})
    return info


def write_pkg_manifest(d, name, templates, subst):
    json.dump({'name': name, 'sym_templates': [t for t in templates if t.endswith('_sym.go.tmpl')], 'subst': subst}, open(os.path.join(d, 'verif_pkg.json'), 'w'))


def native_module(check, mod):
    """A copy of the scratch module in which every package has the native
    intrinsics and the native twin of each *_sym template (built once)."""
    nat = mod.rstrip('/') + '_nativecopy'
    if os.path.isdir(nat):
        return nat
    os.makedirs(nat)
    for f in ('go.mod', 'go.sum'):
        shutil.copy(os.path.join(mod, f), os.path.join(nat, f))
    for pk in sorted(os.listdir(mod)):
        src = os.path.join(mod, pk)
        mf = os.path.join(src, 'verif_pkg.json')
        if not os.path.isdir(src) or not os.path.exists(mf):
            continue
        man = json.load(open(mf))
        dst = os.path.join(nat, pk)
        os.makedirs(dst)
        for f in os.listdir(src):
            if f.endswith('.go') and f != 'zz_verif_i.go' and not f.startswith('zz_verif_sym'):
                shutil.copy(os.path.join(src, f), os.path.join(dst, f))
        _intr_native(man['name'], dst)
        for i, t in enumerate(man['sym_templates']):
            txt = open(os.path.join(HARNESS, t.replace('_sym.go.tmpl', '_native.go.tmpl'))).read().replace('PKGNAME', man['name'])
            for k, v in man.get('subst', {}).items():
                txt = txt.replace(k, v)
            open(os.path.join(dst, 'zz_verif_n%d.go' % i), 'w').write(txt)
    return nat


def scratch_ctx(info, native_templates=(), race=False):
    return {'race': race, 'replay': 'scratch_pkg', 'pkgdir': info['dir'], 'pkgname': info['name'],
            'native_files': [os.path.join(HARNESS, t) for t in native_templates], 'program': info.get('canon')}


def setup_programs(check, programs, templates, determinism=False):
    """Generate code for a dict name -> Program; returns (mod, infos)."""
    pgen = build_parquetgen(check)
    if pgen is None:
        check.finish('n/a')
    mod = make_scratch_module(check)
    infos = {}
    for n, p in programs.items():
        infos[n] = gen_program(check, mod, p, templates, pgen, determinism=determinism)
    return mod, infos


def run_program_jobs(check, mod, infos, jobs, record=0, native_templates=(), race=False, **kw):
    """Engine run over generated packages; attaches the per-package replay context."""
    pk = sorted({j['pkg'] for j in jobs})
    first = len(check.jobs)
    out = check.engine(mod, pk, {}, jobs, record=record, **kw)
    for (j, jr, ctx) in check.jobs[first:]:
        ctx.update(scratch_ctx(infos[j['pkg'].split('/')[-1]], native_templates, race))
    return out


def run_program_jobs_batched(check, mod, infos, jobs, batch=250, **kw):
    """Like run_program_jobs but loads at most `batch` packages per engine run
    (a load of thousands of generated packages does not fit in memory)."""
    pk = sorted({j['pkg'] for j in jobs})
    merged = {'jobs': [], 'load_errors': {}, 'skipped': {}}
    for i in range(0, len(pk), batch):
        part = set(pk[i:i + batch])
        out = run_program_jobs(check, mod, infos, [j for j in jobs if j['pkg'] in part], **kw)
        merged['jobs'] += out.get('jobs') or []
        merged['load_errors'].update(out.get('load_errors') or {})
        merged['skipped'].update(out.get('skipped') or {})
    return merged


def replay_main(check, replay, infos, native_templates=()):
    body = json.load(open(replay))
    name = body['pkg'].split('/')[-1]
    ok, out = check.native_replay(replay, scratch_ctx(infos[name], native_templates))
    log(out[-3000:])
    log('REPRODUCED' if ok else 'NOT REPRODUCED')
    sys.exit(1 if ok else 0)
