"""C12 — page statistics are sound bounds and exact null counts."""
from faultcommon import *


def main(tier, replay):
    c = Check('C12', 'model_checking', tier)
    quick = tier == 'quick'
    P = {k: v for k, v in c01.core_programs().items() if k.startswith('flat_') or k in ('p4', 'p5', 'repopt')}
    mod, infos = setup_programs(c, P, TEMPLATES)
    if replay:
        replay_main(c, replay, infos, NATIVE)
    fp_lemma(c)
    jobs = []

    def J(name, prog, args, expect=None):
        j = {'name': name, 'pkg': 'scratch/' + prog, 'func': 'HarnessStats', 'args': args}
        if expect:
            j['expect'] = expect
        jobs.append(j)
    # HarnessStats(n1, n2, fs, maxList, strLen, longAt, longLen, codec, psArg, fault)
    for i, t in enumerate(progs.PRIMS):
        n = 'flat_' + t
        if t == 'string':
            # string accumulators fork per comparison: few values, one of them up to 10 bytes (the sentinel has 9)
            for at in (0, 1, 2):
                J('str-3f-long%d' % at, n, [0, 3, 1, 1, 1, at, 9, 0, 0, 0])
            # values longer than 64 bytes (a truncated max would no longer bound them)
            J('str-2f-long70', n, [0, 2, 1, 1, 1, 1, 70, 0, 0, 0])
            J('str-1n1f', n, [1, 1, -1, 1, 1, 0, 2, 1, 0, 0])
            if not quick:
                J('str-2n', n, [2, 0, 0, 1, 2, 0, 9, 0, 0, 0])
            continue
        # <= 4 values per column and page in quick (comparison chains are hard for bit-blasting), 6 thorough
        J('%s-1n1f' % t, n, [1, 1, -1, 2, 1, 9, 1, i % 3, 0, 0])
        J('%s-2f-lists2' % t, n, [0, 2, 2, 2, 1, 9, 1, 0, 0, 0])
        J('%s-4f-ps-sym' % t, n, [0, 4, 1, 1, 1, 9, 1, 0, 0, 0])
        if not quick:
            J('%s-3f-lists2' % t, n, [0, 3, 2, 2, 1, 9, 1, 0, 0, 0])
            J('%s-2n' % t, n, [2, 0, 0, 2, 1, 9, 1, 0, 0, 0])
    # statistics after ANOTHER writer instance ran in the same process (recycled statistics objects, package-level state)
    for t in ('int32', 'int64', 'string', 'bool', 'uint64'):
        J('%s-after-other-instance' % t, 'flat_' + t, [0, 3, 1, 2, 1, 9, 1, 0, 0, 3])
    # optional numeric leaves under a repeated group: one record contributes several null entries
    J('repopt-1n-lists3', 'repopt', [1, 0, 0, 3, 1, 9, 1, 0, 0, 0])
    J('repopt-1n1f', 'repopt', [1, 1, -1, 2, 1, 9, 1, 1, 0, 0])
    J('p4-1n1f', 'p4', [1, 1, -1, 2, 2, 9, 1, 0, 0, 0])
    J('p5-2f', 'p5', [0, 2, 2, 1, 1, 9, 1, 1, 0, 0])
    J('sens-nulls', 'flat_int32', [0, 2, 0, 1, 1, 9, 1, 0, 0, 1], expect='null_count')
    J('sens-bound', 'flat_int32', [0, 2, 1, 1, 1, 9, 1, 0, 0, 2], expect='min <= v <= max')
    run_program_jobs(c, mod, infos, jobs, native_templates=NATIVE, record=6 if not quick else 0)
    c.programs = len(P)
    c.bounds = {'values per page and column': '<= 4 (quick) / 6 (thorough)', 'types': progs.PRIMS, 'strings': '<= 2 bytes, one value per run up to 10 bytes; one job with 70-byte values',
                'page size': 'symbolic >= 1 (statistics are per page)', 'other instances': 'for five types the workload runs after two other writer instances of the same type (all-nil records, then ordinary ones)', 'outside': 'pages with more values; strings longer than 10 bytes; distinct_count (never written)'}
    c.assumptions = [STUB_ASSUMPTIONS[k] for k in ('A1', 'A3', 'A4', 'A5', 'A6')] + ['float order: IEEE comparisons encoded over bit patterns, lemma proved each run against the FloatingPoint theory']
    c.finish('paths enumerate record structure (nil/non-nil, list lengths) and page-size outcomes; all column values are symbolic (ints as bit-vectors, floats as IEEE bit patterns incl. every NaN payload, +-0, +-Inf, strings as bytes); a path is non-trivial when at least one obligation went to the solver',
             'generated stats accumulators (add/Min/Max/NullCount), field Add/Write, DoWrite, WritePageHeader executed from SSA; the Statistics of every page header captured at the thrift boundary are compared with the page slice of the reference striping: null_count exact, min/max sound in signed/unsigned/IEEE/bytewise order, absent without non-null values')
