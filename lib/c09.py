"""C09 — a failed write to the destination is always reported."""
from faultcommon import *


def main(tier, replay):
    c = Check('C09', 'fault_enumeration', tier)
    quick = tier == 'quick'
    P = {k: v for k, v in c01.core_programs().items() if k in ('flat24', 'p4', 'p2', 'emb1', 'document', 'flat_int64')}
    mod, infos = setup_programs(c, P, TEMPLATES)
    if replay:
        replay_main(c, replay, infos, NATIVE)
    jobs = []

    def J(name, prog, args, expect=None):
        j = {'name': name, 'pkg': 'scratch/' + prog, 'func': 'HarnessSinkFault', 'args': args, 'opt': {'stub': c02.nostats(prog)}}
        if expect:
            j['expect'] = expect
        jobs.append(j)
    for n in P:
        if n == 'flat_int64':
            continue
        for cd in (0, 1, 2):
            for ps in (1, 2):
                if quick and n not in ('flat24', 'p4') and (cd + ps) % 2:
                    continue
                # 2 batches of 2 records: with page size 1 every batch has a parent and a child page
                J('fault-%s-c%d-ps%d' % (n, cd, ps), n, [2, 2, 1, 1, cd, ps, 0])
        if not quick:
            J('fault-%s-3x3-ps2' % n, n, [3, 3, 2, 1, 1, 2, 0])
    # one page whose body exceeds 64 KiB (8200 int64 values): writers that split large bodies into several sink calls
    for cd in ((0,) if quick else (0, 1)):
        J('fault-bigpage-flat_int64-c%d' % cd, 'flat_int64', [1, 8200, 1, 1, cd, 10000, 2])
        jobs[-1]['opt'].update(max_alloc=400000, max_steps=600000000)
    J('sens-swallow', 'p4', [1, 1, 1, 1, 0, 1, 1], expect='Write reports')
    run_program_jobs(c, mod, infos, jobs, native_templates=NATIVE)
    c.programs = len(P)
    # distinct fault positions actually exercised (distinct failed-call notes per workload), measured by the engine
    c.extra['distinct_nontrivial_override'] = sum(jr.get('distinct_notes', 0) for j, jr, x in c.jobs if not j.get('expect'))
    ncalls = [jr['paths'] for j, jr, x in c.jobs]
    c.bounds = {'fault index k': 'symbolic int64 >= 1: one path per sink call of the workload plus the fault-free one (exhaustive over k)', 'partial count on failure': '0 or len(p)/2',
                'workloads': '2 batches x 2 records (3x3 thorough) of fixed structure, page size 1 and 2, each codec, programs %s; one page of 8200 concrete records (int64 column body of 65600 bytes > 64 KiB)' % sorted(P), 'paths per workload': [min(ncalls or [0]), max(ncalls or [0])],
                'outside': 'sinks that return n < len(p) with a nil error (io.Writer contract violation); failures inside thrift/snappy/gzip themselves'}
    c.assumptions = [STUB_ASSUMPTIONS[k] for k in ('A1', 'A3', 'A4', 'A5', 'A6', 'A7')]
    c.finish('paths = value of the symbolic fault index k relative to the number of sink calls (each comparison calls == k forks) x partial-write choice; distinct_nontrivial = number of distinct (workload, failing call index) pairs actually exercised, counted from the per-path notes; evaluations = paths',
             'NewParquetWriter/begin, Add, Write, Close, all generated field Write methods, DoWrite x2, compress, WritePageHeader, Footer executed from SSA on a sink whose k-th call fails; after the call during which the sink failed the error must be non-nil; no panic')
