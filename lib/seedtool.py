#!/usr/bin/env python3
"""seedtool.py validate <seed-id> <agent-worktree> : confirm a sub-agent's mutant in a fresh scratch worktree
   (builds, existing tests pass, demo fails with / passes without), store it under /verif/seeded/<seed-id>/.
   seedtool.py run <seed-id> <check ids...> [--tier quick] : apply the stored patch to /repo, run the checks, undo."""
import json, os, shutil, subprocess, sys, time

ENV = dict(os.environ, GOFLAGS='-mod=mod', GOPROXY='off', GOSUMDB='off', GOTOOLCHAIN='local')


def sh(cmd, cwd=None, timeout=1800):
    if isinstance(cmd, str):
        cmd = ['bash', '-c', cmd]
    p = subprocess.run(cmd, cwd=cwd, env=ENV, stdout=subprocess.PIPE, stderr=subprocess.STDOUT, text=True, timeout=timeout)
    return p.returncode, p.stdout


def validate(sid, wt):
    dst = os.path.join('/verif/seeded', sid)
    os.makedirs(dst, exist_ok=True)
    diff = os.path.join(wt, 'mutant.diff')
    assert os.path.exists(diff), 'no mutant.diff'
    shutil.copy(diff, os.path.join(dst, 'patch.diff'))
    demo = os.path.join(dst, 'demo')
    shutil.rmtree(demo, ignore_errors=True)
    shutil.copytree(os.path.join(wt, 'zz_demo'), demo, ignore=shutil.ignore_patterns('*.parquet', '*.test'))
    scratch = '/tmp/seedval_' + sid
    sh(['git', '-C', '/repo', 'worktree', 'remove', '--force', scratch])
    rc, out = sh(['git', '-C', '/repo', 'worktree', 'add', '-q', scratch, 'HEAD'])
    res = {'id': sid, 'steps': []}
    try:
        shutil.copytree(demo, os.path.join(scratch, 'zz_demo'))
        rc0, out0 = sh('bash zz_demo/run.sh', cwd=scratch)
        res['demo_without_change'] = {'rc': rc0, 'tail': out0[-600:]}
        rc, out = sh(['git', 'apply', os.path.join(dst, 'patch.diff')], cwd=scratch)
        res['apply'] = {'rc': rc, 'out': out[-300:]}
        rcb, outb = sh('go build ./... 2>&1 | grep -v zz_demo | tail -5; exit ${PIPESTATUS[0]}', cwd=scratch)
        res['build'] = {'rc': rcb, 'tail': outb[-300:]}
        rct, outt = sh("go test -count=1 $(go list ./... | grep -v zz_demo) 2>&1 | grep -v 'no test files' | tail -12", cwd=scratch)
        res['tests_with_change'] = {'fail_lines': [l for l in outt.splitlines() if 'FAIL' in l], 'tail': outt[-500:]}
        rc1, out1 = sh('bash zz_demo/run.sh', cwd=scratch)
        res['demo_with_change'] = {'rc': rc1, 'tail': out1[-800:]}
        res['confirmed'] = (rc == 0 and rcb == 0 and not res['tests_with_change']['fail_lines']
                            and (rc1 != 0 or 'FAIL' in out1) and rc0 == 0 and 'FAIL' not in out0)
    finally:
        sh(['git', '-C', '/repo', 'worktree', 'remove', '--force', scratch])
        shutil.rmtree(scratch, ignore_errors=True)
    json.dump(res, open(os.path.join(dst, 'validation.json'), 'w'), indent=1)
    print(json.dumps({k: res[k] for k in res if k != 'steps'}, indent=1)[:3000])


def run(sid, checks, tier):
    dst = os.path.join('/verif/seeded', sid)
    rc, out = sh(['git', '-C', '/repo', 'status', '--porcelain'])
    assert out.strip() == '', '/repo not clean: ' + out
    rc, out = sh(['git', '-C', '/repo', 'apply', os.path.join(dst, 'patch.diff')])
    assert rc == 0, out
    results = {}
    try:
        for cid in checks:
            t = time.time()
            rc, out = sh(['/verif/bin/check', cid, '--tier', tier], cwd='/verif', timeout=3600)
            lines = [l for l in out.splitlines() if not l.startswith('WARNING')]
            results[cid] = {'rc': rc, 'wall_s': round(time.time() - t, 1), 'violation_lines': [l for l in lines if l.startswith('VIOLATION')][:5],
                            'detail': [l for l in lines if l.startswith('  job=')][:5], 'other': [l for l in lines if l.startswith(('INCONCLUSIVE', 'OK', 'KNOWN'))][:5]}
            print(cid, 'rc=%d' % rc, '%.0fs' % (time.time() - t), (results[cid]['violation_lines'] or results[cid]['other'])[:2], results[cid]['detail'][:2])
    finally:
        sh(['git', '-C', '/repo', 'checkout', '--', '.'])
        sh(['git', '-C', '/repo', 'clean', '-fdq'])
    for f in os.listdir('/verif/replays') if os.path.isdir('/verif/replays') else []:
        os.remove(os.path.join('/verif/replays', f))
    p = os.path.join(dst, 'check_results.json')
    old = json.load(open(p)) if os.path.exists(p) else {}
    old.update(results)
    json.dump(old, open(p, 'w'), indent=1)


if __name__ == '__main__':
    if sys.argv[1] == 'validate':
        validate(sys.argv[2], sys.argv[3])
    else:
        tier = 'quick'
        args = sys.argv[3:]
        if '--tier' in args:
            i = args.index('--tier')
            tier = args[i + 1]
            args = args[:i] + args[i + 2:]
        run(sys.argv[2], args, tier)
