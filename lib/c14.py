"""C14 — excluded fields are inert and embedding equals inlining."""
from vcommon import *
import progs, c01, random, hashlib

BASE_TEMPLATES = ['gsupport.go.tmpl', 'gh_roundtrip.go.tmpl']
PAIR_SYM = ['gh_pair.go.tmpl', 'gpair_sym.go.tmpl']


def decorations(quick, seed):
    P = c01.core_programs()
    P.update(progs.nested_specials())
    bases = {n: P[n] for n in ('p1', 'p2', 'p4', 'two_groups')}
    decs = []  # (id, base name, Program, description)
    for bn, b in bases.items():
        i = 0
        for (where, idx) in progs.positions(b):
            for ti, t in enumerate(progs.EXCL_TYPES):
                mode = ('unexported', 'dash', 'jsondash')[(ti + idx + len(where)) % 3]
                did = '%s_x%02d' % (bn, i)
                i += 1
                decs.append((did, bn, progs.decorate_excluded(b, did, where, idx, mode, t), '%s %s @%s[%d]' % (mode, t, '.'.join(where) or 'top', idx)))
        # every spelling class of unexported names (a..z, _, non-ASCII lower case, caseless letter), top level and nested
        for wi, where in enumerate(sorted({tuple(w) for (w, _) in progs.positions(b)})[:2]):
            did = '%s_n%02d' % (bn, wi)
            decs.append((did, bn, progs.decorate_excluded_names(b, did, list(where)), 'unexported-names @%s' % ('.'.join(where) or 'top')))
        top = len(b.kids)
        j = 0
        for s in range(top):
            for e in range(s + 1, top + 1):
                for twice in (False, True):
                    did = '%s_e%02d' % (bn, j)
                    j += 1
                    decs.append((did, bn, progs.decorate_embed(b, did, s, e, twice), 'embed%s [%d:%d)' % (' twice' if twice else '', s, e)))
    # an embedded struct WITHOUT any column (all members excluded), first / last member of every struct incl. nested ones
    for bn, b in list(bases.items()):
        k = 0
        for (where, idx) in progs.positions(b):
            n_here = len([1 for (w2, i2) in progs.positions(b) if w2 == where]) - 1
            if idx not in (0, n_here):
                continue
            did = '%s_m%02d' % (bn, k)
            k += 1
            decs.append((did, bn, progs.decorate_excluded(b, did, where, idx, 'unexported', 'EMBED_NOCOLS'), 'embed without columns @%s[%d]' % ('.'.join(where) or 'top', idx)))
    # an embedded struct that carries a (non-dash) parquet tag of its own: still embedding, still equal to inlining
    for bn, b in list(bases.items()):
        top = len(b.kids)
        for ti, (s_, e_) in enumerate(((0, 1), (top - 1, top), (0, top))):
            did = '%s_t%02d' % (bn, ti)
            decs.append((did, bn, progs.decorate_embed(b, did, s_, e_, False, tag='audit'), 'embed tagged [%d:%d)' % (s_, e_)))
    # ONE struct type embedded in several places (root, an optional group, a repeated group)
    sb = progs.shared_base()
    bases['shared'] = sb
    for i, places in enumerate(([[], ['In']], [['In'], ['Lst']], [[], ['In'], ['Lst']], [[]])):
        did = 'shared_s%02d' % i
        decs.append((did, 'shared', progs.decorate_embed_shared(sb, did, places), 'embed shared type @' + '+'.join('.'.join(w) or 'top' for w in places)))
    if quick:
        rnd = random.Random(seed)
        # keep every excluded type and both decoration families represented
        ex = [d for d in decs if '_x' in d[0]]
        em = [d for d in decs if '_e' in d[0]]
        pick = []
        for t in progs.EXCL_TYPES:
            for md in ('unexported', 'dash', 'jsondash'):
                cand = [d for d in ex if d[3].startswith(md + ' ' + t + ' @')]
                pick += rnd.sample(cand, min(1, len(cand)))
        pick += rnd.sample(em, min(13, len(em)))
        pick += [d for d in decs if d[3].startswith('unexported-names') or d[3].startswith('embed shared')]
        pick += [d for d in decs if d[3].startswith('embed tagged')][::3]
        pick += [d for d in decs if d[3].startswith('embed without columns')]
        decs = pick
    return bases, decs


def main(tier, replay):
    c = Check('C14', 'translation_validation', tier)
    quick = tier == 'quick'
    bases, decs = decorations(quick, c.seed)
    pgen = build_parquetgen(c)
    if pgen is None:
        c.finish('n/a')
    mod = make_scratch_module(c)
    infos = {}
    for n, p in bases.items():
        infos[n] = gen_program(c, mod, p, BASE_TEMPLATES, pgen)
        if not infos[n]['ok']:
            c.inconclusive.append('base program %s: %s' % (n, infos[n]['msg']))
    jobs = []
    descr = {}
    failed = []
    for did, bn, prog, what in decs:
        info = gen_program(c, mod, prog, BASE_TEMPLATES, pgen)
        infos[did] = info
        descr[did] = what
        if not info['ok']:
            failed.append((did, bn, prog, what, info['msg']))
            continue
        # pair package
        pd = os.path.join(mod, did + '_pair')
        os.makedirs(pd, exist_ok=True)
        open(os.path.join(pd, 'zz_verif_h0.go'), 'w').write(progs.pair_source(did + '_pair', bases[bn], prog, bn, did))
        for i, t in enumerate(PAIR_SYM):
            txt = open(os.path.join(HARNESS, t)).read().replace('PKGNAME', did + '_pair').replace('BASEPKG', bn).replace('DECPKG', did)
            fn = ('zz_verif_sym_%d.go' if t.endswith('_sym.go.tmpl') else 'zz_verif_t%d.go') % i
            open(os.path.join(pd, fn), 'w').write(txt)
        shutil.copy(intr_sym(did + '_pair', c.scratch), os.path.join(pd, 'zz_verif_i.go'))
        write_pkg_manifest(pd, did + '_pair', PAIR_SYM, {'BASEPKG': bn, 'DECPKG': did})
        infos[did + '_pair'] = {'pkg': 'scratch/%s_pair' % did, 'dir': pd, 'name': did + '_pair', 'ok': True, 'canon': bases[bn].canon() + ' vs ' + prog.canon()}
        stubs = []
        for pk in (bn, did):
            stubs += ['(*scratch/%s.stringStats).add' % pk, '(*scratch/%s.stringOptionalStats).add' % pk]
        k = len(jobs)
        jobs.append({'name': 'pair-%s (%s)' % (did, what), 'pkg': 'scratch/%s_pair' % did, 'func': 'HarnessPair', 'args': [2, 1, 1, k % 3, 1 + k % 2, 0],
                     'opt': {'fixed_hdr': True, 'stub': stubs}})
    if replay:
        body = json.load(open(replay))
        if body.get('kind') == 'compile':
            ok, out = compile_check(c, body['struct_source'], pgen)
            log(out[-2000:])
            log('REPRODUCED' if ok else 'NOT REPRODUCED')
            sys.exit(1 if ok else 0)
        replay_main(c, replay, infos, ['gpair_native.go.tmpl'])
    if jobs:
        jobs.append({'name': 'sens-unrelated-record', 'pkg': jobs[0]['pkg'], 'func': 'HarnessPair', 'args': [2, 1, 1, 0, 1, 1], 'opt': dict(jobs[0]['opt']), 'expect': 'segment equal|same number of writes'})
    out = run_program_jobs_batched(c, mod, infos, jobs, batch=180, native_templates=['gpair_native.go.tmpl'])
    # decorated programs that do not generate or do not compile: the exclusion had an effect
    load_err = out.get('load_errors') or {}
    for did, bn, prog, what in decs:
        msgs = []
        for k in ('scratch/' + did, 'scratch/%s_pair' % did):
            if k in load_err:
                msgs += load_err[k][:2]
        if msgs and infos[did]['ok']:
            failed.append((did, bn, prog, what, 'type-error: ' + '; '.join(msgs)[:300]))
    c.inconclusive = [r for r in c.inconclusive if not re.search(r'job pair-', r)]
    for did, bn, prog, what, msg in failed:
        src = prog.struct_source(did)
        ok, outp = compile_check(c, src, pgen)
        v = {'label': 'decorated program generates and compiles', 'kind': 'compile', 'msg': msg, 'notes': [what, 'base=' + bn]}
        job = {'name': 'compile-%s (%s)' % (did, what), 'pkg': 'scratch/' + did, 'func': '-', 'args': []}
        k = c.match_known(job, v)
        if k is not None:
            c.known_hits[json.dumps(k['key'], sort_keys=True)] = k['what']
            continue
        if not ok:
            c.inconclusive.append('decorated program %s failed in the engine front end but compiles natively: %s' % (did, msg))
            continue
        if len(c.violations) < 5:
            os.makedirs(os.path.join(VERIF, 'replays'), exist_ok=True)
            body = {'property': 'C14', 'kind': 'compile', 'job': job['name'], 'label': v['label'], 'msg': msg, 'notes': v['notes'], 'struct_source': src, 'draws': []}
            rp = os.path.join(VERIF, 'replays', 'C14-%s.json' % hashlib.sha1(src.encode()).hexdigest()[:10])
            json.dump(body, open(rp, 'w'), indent=1)
            c.violations.append((job, v, rp))
    c.programs = len(decs)
    c.extra['program_pairs'] = len(decs)
    c.extra['pairs_run'] = len(jobs) - 1
    c.bounds = {'bases': sorted(bases), 'decorations': 'an unexported, parquet:"-" or json:"…" parquet:"-" member of each of %d Go types inserted at every position of every struct (top level and nested); every contiguous run of top-level members moved into an embedded struct, once and doubly nested' % len(progs.EXCL_TYPES),
                'pairs': '%d (%s)' % (len(decs), 'seeded sample covering every excluded type' if quick else 'all'), 'records': '2 per pair, full structural nondeterminism, lists <= 1, strings <= 1 byte', 'outside': 'the parser mechanism itself is not encoded, only its effect on the generated program; thrift bytes (A1: equal structs encode equally, modelled with a fixed header length)'}
    c.assumptions = [STUB_ASSUMPTIONS[k] for k in ('A1', 'A2', 'A3', 'A4', 'A5', 'A6')]
    c.finish('one job per (base, decoration) pair; both generated writers run on records built from the same symbolic values (excluded members get their own fresh values), paths enumerate record structure; programs counts the pairs; disagreements_checked counts the obligations (segment equalities and zero-value checks) evaluated',
             'two generated packages per pair executed from SSA in one path: sink traces compared segment by segment (explicit bytes proved equal, opaque segments equal iff the captured thrift structs / compressed sources are equal), then the decorated reader scans into fresh structs and every excluded member must be zero; a decorated program that does not generate or compile is a violation')


def compile_check(check, struct_source, pgen):
    """True when parquetgen fails or its output does not build for this struct source."""
    d = tempfile.mkdtemp(prefix='cc.', dir=check.scratch)
    mod = os.path.join(d, 'm')
    os.makedirs(os.path.join(mod, 'x'))
    gomod = open(os.path.join(REPO, 'go.mod')).read().split('\n', 1)[1]
    open(os.path.join(mod, 'go.mod'), 'w').write('module scratchcc\n' + gomod + '\nrequire %s v0.0.0\nreplace %s => %s\n' % (MODPATH, MODPATH, REPO))
    shutil.copy(os.path.join(REPO, 'go.sum'), os.path.join(mod, 'go.sum'))
    pkg = re.search(r'package (\w+)', struct_source).group(1)
    open(os.path.join(mod, 'x', 's.go'), 'w').write(struct_source)
    rc, out = sh([pgen, '-input', 's.go', '-type', 'Rec', '-package', pkg, '-output', 'parquet.go'], cwd=os.path.join(mod, 'x'), timeout=60)
    if rc != 0 or not os.path.exists(os.path.join(mod, 'x', 'parquet.go')):
        return True, 'parquetgen failed: ' + out
    rc, out = sh(['go', 'build', './x'], cwd=mod, timeout=300)
    return rc != 0, out
