package parquet

import "bytes"

// C07 glue harness (package parquet): writeLevels / readLevels are the
// entry points every page uses; they must be inverses for every sequence.
func HarnessLevels(w int, n int, fault int) {
	levels := make([]uint8, n)
	for i := range levels {
		levels[i] = vNondetU8()
		vAssume(levels[i] < uint8(1)<<uint(w))
	}
	var buf bytes.Buffer
	err := writeLevels(&buf, levels, int32(w))
	vAssert(err == nil, "writeLevels succeeds on a working writer")
	out := buf.Bytes()
	tail := vNondetU8()
	in := bytes.NewBuffer(append(append([]byte{}, out...), tail))
	got, used, err := readLevels(in, int32(w))
	vAssert(err == nil, "readLevels accepts writeLevels output")
	if err != nil {
		return
	}
	vAssert(used == len(out), "readLevels reports the stream length")
	vAssert(in.Len() == 1, "readLevels leaves the following byte unread")
	vAssert(len(got) >= n, "at least n values")
	if len(got) < n {
		return
	}
	pad := len(got) - n
	if fault == 1 {
		pad += 8
	}
	vAssert(pad < 8, "fewer than 8 padding values")
	ok := true
	for i := 0; i < n; i++ {
		ok = vAnd(ok, got[i] == levels[i])
	}
	vAssert(ok, "readLevels returns the written levels")
	vReach("end")
}
