package bitpack

// C17 harnesses: executed symbolically by gosym (entry points Harness*),
// and natively for replay.  All eight values / all w bytes are free
// symbolic bytes, so each harness covers the complete domain in one path.

func c17ref(vals []uint8, w int) uint32 {
	var acc uint32
	mask := uint8(1)<<uint(w) - 1
	for i := 0; i < 8; i++ {
		acc |= uint32(vals[i]&mask) << uint(i*w)
	}
	return acc
}

// HarnessPack: Pack appends exactly w bytes in the LSB-first little-endian
// layout of the specification, keeps the prefix, and Unpack inverts it.
func HarnessPack(w int, oracleFault int) {
	vals := make([]uint8, 8)
	for i := range vals {
		vals[i] = vNondetU8()
	}
	pre := vNondetU8()
	out := Pack([]byte{pre}, w, vals)
	vObserve(out)
	vAssert(len(out) == w+1, "packed length is w")
	if len(out) != w+1 {
		return
	}
	vAssert(out[0] == pre, "prefix preserved")
	acc := c17ref(vals, w)
	if oracleFault == 1 {
		acc ^= 1 << uint(w) // seeded oracle fault: must be reported
	}
	ok := true
	for k := 0; k < w; k++ {
		ok = vAnd(ok, out[1+k] == uint8(acc>>uint(8*k)))
	}
	vAssert(ok, "spec layout (LSB-first, little-endian)")
	back := Unpack(w, out[1:])
	vObserve(back)
	vAssert(len(back) == 8, "unpacked count is 8")
	if len(back) != 8 {
		return
	}
	mask := uint8(1)<<uint(w) - 1
	ok = true
	for i := 0; i < 8; i++ {
		ok = vAnd(ok, back[i] == vals[i]&mask)
	}
	vAssert(ok, "unpack(pack(v)) == v")
	vReach("end")
}

// HarnessUnpack: every w-byte group unpacks to eight w-bit values in spec
// order, and packing them again is the identity.
func HarnessUnpack(w int, oracleFault int) {
	b := make([]byte, w)
	for i := range b {
		b[i] = vNondetU8()
	}
	vals := Unpack(w, b)
	vObserve(vals)
	vAssert(len(vals) == 8, "unpacked count is 8")
	if len(vals) != 8 {
		return
	}
	var acc uint32
	for k := 0; k < w; k++ {
		acc |= uint32(b[k]) << uint(8*k)
	}
	mask := uint32(1)<<uint(w) - 1
	if oracleFault == 1 {
		mask >>= 1
	}
	ok := true
	for i := 0; i < 8; i++ {
		ok = vAnd(ok, uint32(vals[i]) == (acc>>uint(i*w))&mask)
	}
	vAssert(ok, "spec order of unpacked values")
	out := Pack(nil, w, vals)
	vAssert(len(out) == w, "repacked length is w")
	if len(out) != w {
		return
	}
	ok = true
	for k := 0; k < w; k++ {
		ok = vAnd(ok, out[k] == b[k])
	}
	vAssert(ok, "pack(unpack(b)) == b")
	vReach("end")
}

// HarnessHeld: Pack and Unpack are functions of their arguments: a result the
// caller still holds is not changed by a later call (at any width), and the
// input slices are left as they were.
func HarnessHeld(w int, w2 int) {
	b1 := make([]byte, w)
	for i := range b1 {
		b1[i] = vNondetU8()
	}
	b2 := make([]byte, w2)
	for i := range b2 {
		b2[i] = vNondetU8()
	}
	keep := append([]byte{}, b1...)
	first := Unpack(w, b1)
	vAssert(len(first) == 8, "unpacked count is 8")
	if len(first) != 8 {
		return
	}
	snap := append([]uint8{}, first...)
	second := Unpack(w2, b2)
	packed := Pack(nil, w2, second)
	_ = packed
	ok := true
	for i := 0; i < 8; i++ {
		ok = vAnd(ok, first[i] == snap[i])
	}
	vAssert(ok, "an unpacked group is not changed by a later Unpack or Pack")
	ok = true
	for i := range b1 {
		ok = vAnd(ok, b1[i] == keep[i])
	}
	vAssert(ok, "Unpack leaves its input as it was")
	vReach("end")
}

// HarnessVacuity is the assert-false twin: it must be reported violated.
func HarnessVacuity(w int) {
	vals := make([]uint8, 8)
	for i := range vals {
		vals[i] = vNondetU8()
	}
	out := Pack(nil, w, vals)
	vAssert(len(out) != w, "vacuity twin (must fail)")
}
