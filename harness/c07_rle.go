package rle

import "bytes"

// C07 harnesses (package rle, injected by overlay).
//
// refDecode is a decoder for the RLE/bit-packed hybrid written from the
// parquet-format specification: <4-byte LE length> then runs, each a
// ULEB128 header h; h&1 == 0: RLE run of h>>1 copies of a value stored on
// ceil(w/8) bytes; h&1 == 1: (h>>1) groups of 8 values bit-packed LSB first.
// Returns the values and whether the stream is well formed; *legal collects
// the spec conditions the property names (non-zero counts, value fits w).
func refDecode(out []byte, w int) (vals []uint8, legal bool, wellFormed bool) {
	if len(out) < 4 {
		return nil, false, false
	}
	ln := int(out[0]) | int(out[1])<<8 | int(out[2])<<16 | int(out[3])<<24
	if ln != len(out)-4 {
		return nil, false, false
	}
	legal = true
	pos := 4
	mask := uint32(1)<<uint(w) - 1
	for pos < len(out) {
		var h, shift uint
		for {
			if pos >= len(out) {
				return nil, false, false
			}
			b := out[pos]
			pos++
			h |= uint(b&0x7f) << shift
			if b&0x80 == 0 {
				break
			}
			shift += 7
			if shift > 28 {
				return nil, false, false
			}
		}
		if h&1 == 0 {
			cnt := int(h >> 1)
			if cnt == 0 || pos >= len(out) {
				return nil, false, false
			}
			v := out[pos]
			pos++
			legal = vAnd(legal, uint32(v) <= mask)
			for i := 0; i < cnt; i++ {
				vals = append(vals, v)
			}
		} else {
			groups := int(h >> 1)
			if groups == 0 || pos+groups*w > len(out) {
				return nil, false, false
			}
			for g := 0; g < groups; g++ {
				var acc uint32
				for k := 0; k < w; k++ {
					acc |= uint32(out[pos+k]) << uint(8*k)
				}
				pos += w
				for j := 0; j < 8; j++ {
					vals = append(vals, uint8((acc>>uint(j*w))&mask))
				}
			}
		}
	}
	return vals, legal, true
}

// checkEncoded is the oracle shared by the encoder harnesses.
func checkEncoded(levels []uint8, w int, fault int) {
	n := len(levels)
	enc, err := New(int32(w), n)
	vAssert(err == nil, "New accepts width")
	for _, l := range levels {
		enc.Write(l)
	}
	out := enc.Bytes()
	vObserve(out)
	dec, legal, ok := refDecode(out, w)
	vAssert(ok, "well-formed stream (length prefix, headers, payload sizes)")
	if !ok {
		return
	}
	vAssert(legal, "RLE run values fit the bit width")
	vAssert(len(dec) >= n, "spec decoder yields at least n values")
	if len(dec) < n {
		return
	}
	pad := len(dec) - n
	if fault == 1 {
		pad += 8 // seeded oracle fault
	}
	vAssert(pad < 8, "fewer than 8 padding values")
	eq := true
	for i := 0; i < n; i++ {
		want := levels[i]
		if fault == 2 && i == n-1 {
			want ^= 1
		}
		eq = vAnd(eq, dec[i] == want)
	}
	vAssert(eq, "spec decoder returns the encoded sequence")

	// the library's own decoder on the same bytes, followed by a foreign byte
	tail := vNondetU8()
	in := bytes.NewBuffer(append(append([]byte{}, out...), tail))
	d2, _ := New(int32(w), 0)
	got, used, err := d2.Read(in)
	vAssert(err == nil, "library decoder accepts the encoder's stream")
	if err != nil {
		return
	}
	vAssert(used == len(out), "library decoder reports the stream's byte length")
	vAssert(in.Len() == 1, "library decoder leaves the following byte unread")
	vObserve(got)
	vAssert(len(got) == len(dec), "library decoder value count")
	if len(got) < n {
		return
	}
	eq = true
	for i := 0; i < n; i++ {
		eq = vAnd(eq, got[i] == levels[i])
	}
	vAssert(eq, "library decoder returns the encoded sequence")
	vReach("end")
}

// HarnessRLEEnc: all level sequences of length n and width w (the equality
// pattern of neighbours is explored by forking, values stay symbolic).
func HarnessRLEEnc(w int, n int, fault int) {
	levels := make([]uint8, n)
	for i := range levels {
		levels[i] = vNondetU8()
		vAssume(levels[i] < uint8(1)<<uint(w))
	}
	checkEncoded(levels, w, fault)
}

// HarnessRLEFamily: up to four segments, kind 1 = noise(len) (alternating
// x,y with x != y), kind 2 = run(len) (len copies of z); neighbouring
// segments are assumed to differ at the seam.  One path per family member.
func HarnessRLEFamily(w int, k1, n1, k2, n2, k3, n3, k4, n4 int) {
	kinds := []int{k1, k2, k3, k4}
	lens := []int{n1, n2, n3, n4}
	lim := uint8(1) << uint(w)
	var levels []uint8
	havePrev := false
	var prev uint8
	for s := 0; s < 4; s++ {
		if kinds[s] == 0 || lens[s] == 0 {
			continue
		}
		x := vNondetU8()
		vAssume(x < lim)
		if havePrev {
			vAssume(x != prev)
		}
		switch kinds[s] {
		case 1:
			y := vNondetU8()
			vAssume(y < lim)
			vAssume(x != y)
			for i := 0; i < lens[s]; i++ {
				if i%2 == 0 {
					levels = append(levels, x)
					prev = x
				} else {
					levels = append(levels, y)
					prev = y
				}
			}
		case 2:
			for i := 0; i < lens[s]; i++ {
				levels = append(levels, x)
			}
			prev = x
		}
		havePrev = true
	}
	checkEncoded(levels, w, 0)
}

func putUvarint(b []byte, v uint) []byte {
	for v >= 0x80 {
		b = append(b, byte(v)|0x80)
		v >>= 7
	}
	return append(b, byte(v))
}

// HarnessRLEDec: a foreign, well-formed stream of k runs.  Each run is RLE
// (count symbolic in 1..maxCount, or the constant bigCount when > 0 and the
// choice says so) or bit-packed (g groups of symbolic bytes, g from gset).
// The library decoder must accept it, return the reference expansion and
// consume exactly the stream.
func HarnessRLEDec(w int, k int, maxCount int, bigCount int, g1, g2, g3 int, fault int) {
	var body []byte
	var want []uint8
	mask := uint32(1)<<uint(w) - 1
	gset := []int{}
	for _, g := range []int{g1, g2, g3} {
		if g > 0 {
			gset = append(gset, g)
		}
	}
	for r := 0; r < k; r++ {
		kind := vChoose(2)
		if kind == 0 {
			v := vNondetU8()
			vAssume(v < uint8(1)<<uint(w))
			n := 0
			if bigCount > 0 && vChoose(2) == 1 {
				n = bigCount
			} else {
				c := vNondetU8()
				vAssume(c >= 1 && c <= uint8(maxCount))
				n = int(c) // forks on the count
			}
			body = putUvarint(body, uint(n)<<1)
			body = append(body, v)
			for i := 0; i < n; i++ {
				want = append(want, v)
			}
		} else {
			g := gset[vChoose(len(gset))]
			body = putUvarint(body, uint(g)<<1|1)
			for gi := 0; gi < g; gi++ {
				var acc uint32
				for b := 0; b < w; b++ {
					x := vNondetU8()
					body = append(body, x)
					acc |= uint32(x) << uint(8*b)
				}
				for j := 0; j < 8; j++ {
					want = append(want, uint8((acc>>uint(j*w))&mask))
				}
			}
		}
	}
	ln := len(body)
	stream := []byte{byte(ln), byte(ln >> 8), byte(ln >> 16), byte(ln >> 24)}
	stream = append(stream, body...)
	tail := vNondetU8()
	stream = append(stream, tail)
	in := bytes.NewBuffer(stream)
	dec, _ := New(int32(w), 0)
	got, n, err := dec.Read(in)
	vObserve(stream)
	vAssert(err == nil, "accepts well-formed foreign stream")
	if err != nil {
		return
	}
	vObserve(got)
	vAssert(n == ln+4, "reports prefix+4 bytes consumed")
	vAssert(in.Len() == 1, "following byte left unread")
	vAssert(len(got) == len(want), "value count")
	if len(got) != len(want) {
		return
	}
	ok := true
	for i := range want {
		x := want[i]
		if fault == 1 && i == len(want)-1 {
			x ^= 1
		}
		ok = vAnd(ok, got[i] == x)
	}
	vAssert(ok, "values equal the reference expansion")
	vReach("end")
}

// HarnessRLEVacuity must be reported violated.
func HarnessRLEVacuity(w int) {
	levels := []uint8{vNondetU8() & 1, vNondetU8() & 1}
	enc, _ := New(int32(w), 2)
	for _, l := range levels {
		enc.Write(l)
	}
	out := enc.Bytes()
	vAssert(len(out) < 4, "vacuity twin (must fail)")
}
